"""Stand-in for sqlalchemy_jsonfield 1.0.1 (harness only).

JSONField(enforce_string=True, enforce_unicode=False): JSON text in a TEXT column.
"""
import json

from sqlalchemy.types import Text, TypeDecorator


class JSONField(TypeDecorator):
    impl = Text
    cache_ok = True

    def __init__(self, enforce_string=False, enforce_unicode=False, json=json, json_type=None):
        super().__init__()
        self._enforce_string = enforce_string
        self._enforce_unicode = enforce_unicode
        self._json = json

    def process_bind_param(self, value, dialect):
        if value is None:
            return None
        return self._json.dumps(value, ensure_ascii=not self._enforce_unicode)

    def process_result_value(self, value, dialect):
        if value is None:
            return None
        if isinstance(value, (dict, list)):
            return value
        return self._json.loads(value)
