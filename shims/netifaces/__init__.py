"""Stand-in for netifaces (harness only): only used when wss=True and app.debug."""
AF_INET = 2


def interfaces():
    return []


def ifaddresses(name):
    return {}
