"""Stand-in for python-dotenv (harness only): the harness always passes config=."""


def load_dotenv(*args, **kwargs) -> bool:
    return False
