#!/venv/bin/python
"""Regenerates MANIFEST.json from the table below (single source of truth)."""
import json
from pathlib import Path

VERIF = Path(__file__).resolve().parent.parent

BASELINE = ("cd /repo && /venv/bin/python -m pytest -ra -q -p no:cacheprovider --timeout=900 "
            "--continue-on-collection-errors")

TRUST_HTTP = ("Trusted: CPython 3.12, Flask/Werkzeug/SQLAlchemy/lxml as installed; the four harness-only "
              "stand-ins under /verif/shims (flask_login, sqlalchemy_jsonfield, dotenv, netifaces: the real "
              "packages are absent from /venv and the wheelhouse); the werkzeug test client as the HTTP "
              "boundary; virtual clock substituted for datetime.now in the four dashlive modules that read it.")

# id -> (level, technique, text, note, design_ref)   -- only properties with a built check
CHECKS = {
    'C19': ('exploration',
            'runtime differential monitor: real formatter/parser functions vs independent exact-rational ISO-8601 reader, exhaustive microsecond sweep',
            'Every microsecond fraction (10^6, exhaustive) x representative whole-second parts x float/str/timedelta '
            'inputs is pushed through the real toIsoDuration / from_isodatetime / to_iso_datetime / template filters '
            'and tick conversions; an independent Fraction-based reader decides each observed output. Held-on-observed, not a proof.',
            'Trusted: CPython, the oracle (own regex + fractions.Fraction). Pure functions, no shims involved.',
            '4.19'),
}

CHECKS.update({
    'C20': ('exploration',
            'model-based runtime monitor: real BufferedReader vs slice/BytesIO reference model over generated operation programs, invariant hook on the real object after every call',
            'Generated programs (read/peek/seek x3/tell/readall) over generated window/buffer/cache geometries are executed on the '
            'real class and on a reference model; every return value and the hooked internal state (pos, cache accounting) are '
            'compared after each operation. Decides only the programs executed.',
            'Trusted: CPython io.BytesIO as the model. Windows inside the file, explicit size (the quantified domain).',
            '4.20'),
    'C01': ('exploration',
            'HTTP-boundary runtime monitor under a virtual clock: independent rational DASH availability model decides which URLs the served manifest makes addressable; each is fetched from the real WSGI app',
            'Thousands of (stream, template, option vector, clock) cases per run; the manifest is read by an independent MPD reader, '
            'the addressable set is computed from the document alone (ISO/IEC 23009-1 5.3.9.5.3, Fractions) and every init/media URL '
            'is requested at the same frozen instant. Reach counters prove the anchored timing functions executed.',
            TRUST_HTTP, '4.1'),
    'C02': ('exploration',
            'HTTP-boundary runtime monitor: independent ISO-BMFF walker reads tfdt/mfhd/trun of every served segment and compares with the manifest entry that named it; payload-hash identification of the stored segment for the alignment rule',
            'Same workload as C01; every 200 media response is parsed by a walker that shares no code with dashlive and compared with '
            'the $Time$/$Number$/S@d that addressed it; timelines are checked gapless; loop alignment is decided in exact rationals.',
            TRUST_HTTP, '4.2'),
    'C03': ('exploration',
            'HTTP-boundary runtime monitor: independent ISO-BMFF walker checks nesting, payload identity against the stored file, trun/saio offsets and senc/saiz/trun agreement of every served segment',
            'Same workload as C01 biased to DRM/PIFF/event options; each served segment is walked down to leaf boxes and compared with '
            'the stored bytes; offsets are recomputed from the served bytes alone.',
            TRUST_HTTP, '4.3'),
})

CHECKS.update({
    'C13': ('exploration',
            'HTTP-boundary runtime monitor: independent RFC 7233 model judges (status, Content-Range, body) of every ranged GET against the unranged body of the same URL at the same virtual instant',
            'Exhaustive boundary grid of first/last/suffix positions around 0, L-1, L, L+1, 2^31, 2^63 per URL plus a malformed corpus '
            'and thousands of random header mutations, on live/vod/multi-period segment routes and the range-only on-demand route.',
            TRUST_HTTP, '4.13'),
    'C10': ('exploration',
            'HTTP-boundary runtime monitor: box-level diff (independent walker) of every init response against the stored file, pssh payloads read back with an independent PRO/WRMHEADER reader; the selection x location x version x mode x route product is enumerated',
            'thorough enumerates the complete product of 12 stored files x {live,vod} x 744 DRM selections x PlayReady versions x '
            '{single,multi-period} routes (exhaustive); quick a rotating 1/6 slice. Every difference from the stored bytes other than '
            'appended pssh for selected moov-located systems and mehd removal in live mode is reported.',
            TRUST_HTTP, '4.10'),
})

CHECKS.update({
    'C08': ('exploration',
            'post-condition monitor wrapped around the real DashTiming.__init__ (hooked state checked with exact datetime/Fraction arithmetic) + offline history checker for publishTime monotonicity and day-stability; same wrapper active under real HTTP manifest requests',
            'About 10^6 generated (now, start, depth, mup, reference) tuples per quick run on calendar-boundary and phase grids, thousands of '
            'increasing-instant histories incl. midnight crossings, and every DashTiming the server builds while serving manifests.',
            'Trusted: CPython datetime; for the HTTP layer: ' + TRUST_HTTP, '4.8'),
    'C11': ('exploration',
            'differential runtime monitor of the real PlayReady helpers against hashlib/uuid/pure-Python-AES re-implementations and an independent PRO reader; HTTP-boundary monitors for POST /clearkey and for ContentProtection elements vs request vs init pssh',
            'Random KIDs/keys/seeds/key sets/header versions/licence URLs for the pure functions; generated ClearKey request mixes; manifests of the '
            'seven DRM-capable templates with generated selections compared with the request and with the init segments of the same request.',
            TRUST_HTTP + ' Oracles self-tested against FIPS-197 vectors.', '4.11'),
})

CHECKS.update({
    'C14': ('exploration',
            'offline exactly-once checker over recorded histories of consecutive segment responses (emsg boxes read by the independent walker), EventStream-vs-schedule check, independent SCTE-35 bit reader + CRC-32/MPEG-2, encode/parse identity monitor on BinarySignal',
            'Generated schedules x runs of consecutive video segments in vod ($Number$/$Time$) and live (everything a manifest advertises, across '
            'loops); expected event set computed in exact rationals; every SCTE-35 payload decoded independently; thousands of generated '
            'splice_info_sections round-tripped.',
            TRUST_HTTP + ' SCTE-35 reader self-tested on the two ANSI/SCTE 35 section 14 examples, CRC on the standard check value.', '4.14'),
})

CHECKS.update({
    'C06': ('exploration',
            'HTTP-boundary runtime monitor: end-to-end walk of every static manifest (numbers, timeline entries, byte ranges, last+1) with the independent walker chaining decode times and comparing ranged bodies with the stored file',
            'All ten vod/odvod template x mode pairs x streams x option vectors; every enumerated segment of every Representation is fetched, '
            'chained gaplessly from the file\'s first decode time and summed against the stored duration; byte ranges must tile the stored file.',
            TRUST_HTTP, '4.6'),
})

CHECKS.update({
    'C05': ('exploration',
            'HTTP-boundary runtime monitor: lxml well-formedness + independent ISO/IEC 23009-1 rule set on every manifest/patch response, benign-vs-hostile skeleton differential with hostile strings stored through the real management endpoint or sent as query/Host values',
            'All nine templates plus the patch endpoint, single- and multi-period, generated option vectors and clocks; each case rendered with '
            'benign and with hostile strings at eleven locations; the element skeleton must not change and the string must come back verbatim.',
            TRUST_HTTP, '4.5'),
    'C07': ('exploration',
            'runtime monitor with a recording wrapper on the real calculate_options: containers captured at the manifest and at the media endpoint (reached through the URL the manifest wrote) are compared field by field; independent query-string parse for the usage mask; per-option to_string/from_string round trip through URL decoding',
            'Registry-driven: every option discovered at run time x generated legal values for the unit layer; thousands of manifests with generated '
            'option subsets, one init + one media URL per AdaptationSet, for the integration layer.',
            TRUST_HTTP, '4.7'),
})

CHECKS.update({
    'C09': ('exploration',
            'offline pairwise checker over recorded manifest histories at increasing virtual instants; MPD patches applied with an independent RFC 5261 subset and compared with the full manifest',
            'Chains of 2..8 instants per generated option vector on the three timeline-capable templates, deltas from 1 ms to hours incl. segment, '
            'loop, day and ttl crossings; shared segments, window monotonicity, publishTime/AST monotonicity and patch equivalence are decided '
            'from the recorded documents only.',
            TRUST_HTTP, '4.9'),
})

CHECKS.update({
    'C12': ('exploration',
            'HTTP-boundary runtime monitor: multi-period definitions created through the real management API, period arithmetic in exact Fractions on the served manifests, every admitted segment fetched and identified by payload hash and walked for decode times',
            'Hundreds of generated 1..4-period definitions per run x {vod, live} x option vectors x clocks; contiguity, duration sums, live window '
            'coverage, id uniqueness, per-period retrievability, source-segment identity, zero-based gapless decode times, 404 past the source and '
            'cross-stream period ownership are decided from responses only.',
            TRUST_HTTP, '4.12'),
})

CHECKS.update({
    'C15': ('exploration',
            'conservation monitor at the HTTP boundary: raw-SQL dump of every table + hashed blob listing before and after each request; authorised request shapes replayed by every lesser role with self-harvested tokens; complete route x method x role sweep from the routing table discovered at run time; accepted-at-most-once checker over CSRF token histories',
            'Every mutating operation in the shape the authorised role sends it x five roles, the whole url_map x five methods x lesser roles x '
            'three encodings with harvested CSRF tokens and JWTs (enumerated completely across shards), and random CSRF histories; positive '
            'controls show that the same requests do change state for the authorised role.',
            TRUST_HTTP + ' The flask_login stand-in only affects how an authenticated session is recognised; lesser roles use the repository\'s own AnonymousUser.', '4.15'),
})

CHECKS.update({
    'C16': ('fault_enumeration',
            'fault-injection monitor at the HTTP boundary and the parser entry point: status / unhandled-exception signal on every fuzzed request, wall watchdog + deterministic sys.monitoring line/jump budget for termination, tracemalloc bound for the parser, sequence monitor over error-injection histories sharing a client session',
            'Route table x registered option names x 26 type-confusion values (singly, with enabling options, and in sampled pairs) x streams with '
            'missing pieces; MP4 mutation operators at every box of init/media/whole files into Mp4Atom.load (eager, lazy) and into '
            'upload -> index -> serve; {v,a,t,m}err x failures x interleaved request sequences judged for exactly-as-asked.',
            TRUST_HTTP + ' A wall-clock timeout alone never produces a verdict.', '4.16'),
})

CHECKS.update({
    'C17': ('exploration',
            'stateful runtime monitor: random management histories through the real endpoints; after every step raw-SQL integrity queries, blob-store comparison, deletion-ownership check on the before/after diff, serve probe of every listed object and byte-exact read-back of indexed uploads',
            'Hundreds of histories of 5..40 operations per run from an empty store (snapshot/restore), arguments drawn from existing and missing '
            'objects, duplicate names and the same file name in another stream; failing histories are written out completely and can be replayed.',
            TRUST_HTTP, '4.17'),
})

CHECKS.update({
    'C18': ('fault_enumeration',
            'the real DashValidator driven in-process through a response-rewriting HttpClient adapter under a virtual clock: clean sessions must end without errors, sessions with one injected specification violation (fault catalogue) must end with an error located at the corrupted element',
            'Thousands of validator sessions per run over all templates/modes/option vectors/clocks; half of them with exactly one response '
            'rewritten by the independent walker / lxml (15 fault kinds); outcome judged per fault with the error line ranges.',
            TRUST_HTTP + ' The validator gets the server-side representation info exactly as upstream\'s own test harness provides it.', '4.18'),
})

CHECKS.update({
    'C04': ('exploration',
            'differential round-trip monitor on the real Mp4Atom.load / encode / toJSON / fromJSON / edit API against an independent from-the-specification box writer (generator) and box walker (oracle)',
            'Generated trees of every registered box class (versions, flag-gated fields, empty lists, boundary widths, 64-bit sizes, uuid headers; codec '
            'configuration boxes grafted from every fixture stsd with mutated numeric fields) x mode {r,rw} x lazy {off,on} x two reader types; eager/lazy '
            'toJSON equality; JSON round trip; edit programs (assign/insert/append/remove) judged by the walker (exact nesting, untouched boxes identical, '
            'assigned values read back independently).',
            'Trusted: dlv.oracles.boxwriter and dlv.oracles.isobmff (written from ISO/IEC 14496-12, 23001-7, 23009-1; self-tested against the fixtures). '
            'Well-formedness of the generated input is the generator\'s claim; every generated file is first accepted by the independent walker.', '4.4'),
})

NOT_YET = {}


def main() -> None:
    props = [json.loads(l) for l in (VERIF / 'properties.jsonl').read_text().splitlines() if l.strip()]
    checks = []
    not_applicable = []
    for p in props:
        pid = p['id']
        if pid in CHECKS:
            level, technique, text, note, ref = CHECKS[pid]
            checks.append({
                'property_id': pid,
                'quick_cmd': f'./check {pid} --tier quick',
                'thorough_cmd': f'./check {pid} --tier thorough',
                'evidence_file': f'evidence/{pid}.json',
                'replay_cmd_template': f'./check {pid} --replay {{path}}',
                'engine': 'dlv',
                'level_claimed': {'category': level, 'text': text, 'design_ref': f'DESIGN.md section {ref}'},
                'level_note': note,
                'technique': technique,
            })
        else:
            not_applicable.append({
                'property_id': pid,
                'reason': NOT_YET.get(pid, 'monitor not built yet in this round (planned, see DESIGN.md section 4); '
                                           'not claimed until its check is silent on the unchanged tree'),
            })
    manifest = {
        'version': 1,
        'setup_cmd': './setup.sh',
        'hooks': {
            'guard': 'DASHLIVE_VERIF',
            'enable': 'no source hooks: monitors are attached from outside (wrappers on real classes, WSGI '
                      'boundary recording) by the harness processes, which set DASHLIVE_VERIF=1 for themselves; '
                      '/repo contains no guarded code',
            'baseline_off_cmd': BASELINE,
            'source_commits': [],
            'add_only': True,
        },
        'engines': [{
            'name': 'dlv',
            'path': 'dlv/',
            'serves_properties': sorted(CHECKS),
            'kind_free_text': 'runtime monitoring: sharded workload generators drive the real code of the /repo '
                              'working tree; independent oracles decide each recorded event/history; '
                              'reach counters make unobserved monitors inconclusive',
        }],
        'checks': checks,
        'not_applicable': not_applicable,
        'notes': 'Exit codes: 0 held on everything observed; 1 + VIOLATION line; 2 = inconclusive '
                 '(monitor not reached, worker died, watchdog). VERIF_SEED / VERIF_TIER / VERIF_REPO honoured.',
    }
    if not not_applicable:
        del manifest['not_applicable']
    (VERIF / 'MANIFEST.json').write_text(json.dumps(manifest, indent=1) + '\n')
    print(f'{len(checks)} checks, {len(not_applicable)} not claimed')


if __name__ == '__main__':
    main()
