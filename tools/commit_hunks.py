#!/usr/bin/env python3
"""commit_hunks.py <regex> <message>: commit only those hunks of /repo's working tree diff whose
text matches regex (helper to keep 'fix:' commits one defect each)"""
import re, subprocess, sys
rx, msg = re.compile(sys.argv[1]), sys.argv[2]
diff = subprocess.run(['git', '-C', '/repo', 'diff', '-U3'], capture_output=True, text=True).stdout
out = []
for filediff in re.split(r'(?m)^(?=diff --git )', diff):
    if not filediff.strip():
        continue
    parts = re.split(r'(?m)^(?=@@ )', filediff)
    head, hunks = parts[0], parts[1:]
    keep = [h for h in hunks if rx.search(h)]
    if keep:
        out.append(head + ''.join(keep))
if not out:
    sys.exit('no hunk matches')
p = subprocess.run(['git', '-C', '/repo', 'apply', '--cached', '--recount', '-'], input=''.join(out), text=True)
if p.returncode:
    sys.exit(p.returncode)
subprocess.run(['git', '-C', '/repo', 'commit', '-q', '-m', msg], check=True)
print(subprocess.run(['git', '-C', '/repo', 'log', '--oneline', '-1'], capture_output=True, text=True).stdout)
