#!/usr/bin/env python3
"""copy the witnesses of known findings written by the last runs (replays/<id>/known/*.json)
to findings/<id>/ so that every recorded finding has a committed, replayable witness:
    ./check <id> --replay findings/<id>/<mechanism>.json
"""
import shutil
from pathlib import Path
V = Path(__file__).resolve().parent.parent
n = 0
for f in sorted((V / 'replays').glob('*/known/*.json')):
    dst = V / 'findings' / f.parent.parent.name
    dst.mkdir(parents=True, exist_ok=True)
    shutil.copy(f, dst / f.name)
    n += 1
print(n, 'witnesses')
