#!/usr/bin/env python3
"""Seeded-change bookkeeping.

  seeded.py confirm <src_dir> <n> <name>   confirm change n delivered by a sub-agent in <src_dir>
                                           (patchN.diff, demoN.py, meta.json) in a scratch worktree:
                                           applies, test suite unchanged (87 passed), demo exits 1 with
                                           the change and 0 without; then stores it as seeded/<name>/
  seeded.py run <name> [check ...]         apply seeded/<name>/patch.diff to /repo, run the property's
                                           quick check (or the listed checks), undo, record the verdicts
                                           in seeded/<name>/meta.json
  seeded.py table                          print the table for DESIGN.md
"""
from __future__ import annotations

import json
import os
import re
import shutil
import subprocess
import sys
import tempfile
from pathlib import Path

VERIF = Path(__file__).resolve().parent.parent
REPO = Path('/repo')
SEEDED = VERIF / 'seeded'
PYTEST = ['/venv/bin/python', '-m', 'pytest', '-q', '-p', 'no:cacheprovider', '--timeout=900',
          '--continue-on-collection-errors']


def sh(cmd, cwd=None, timeout=1800, env=None):
    p = subprocess.run(cmd, cwd=cwd, capture_output=True, text=True, timeout=timeout, env=env)
    return p.returncode, p.stdout + p.stderr


def confirm(src: Path, n: str, name: str) -> int:
    patch = src / f'patch{n}.diff'
    demo = src / f'demo{n}.py'
    meta_all = json.loads((src / 'meta.json').read_text())
    entry = [c for c in meta_all['changes'] if c['patch'] == patch.name][0]
    wt = Path(tempfile.mkdtemp(prefix='seedconfirm_', dir='/tmp')) / 'wt'
    rc, out = sh(['git', '-C', str(REPO), 'worktree', 'add', '--detach', '-q', str(wt), 'HEAD'])
    if rc:
        print(out)
        return 2
    # some demonstrations hard-code the sub-agent's own worktree path: run a copy in which that path
    # names the confirmation worktree
    agent_wt = None
    m = re.search(r'/tmp/wt[2345]?/C\d\d|/tmp/r6_C\d\d(?![_\d])', demo.read_text() + ''.join(f.read_text() for f in src.glob('*.py')))
    if m:
        agent_wt = m.group(0)
        work = wt.parent / 'demo'
        shutil.copytree(src, work, ignore=shutil.ignore_patterns('__pycache__', '*.pyc'))
        for f in work.rglob('*.py'):
            t = f.read_text()
            f.write_text(t.replace(agent_wt, str(wt)).replace(str(src), str(work)))
        demo_run = work / demo.name
    else:
        demo_run = demo
    result = {}
    try:
        env = dict(os.environ, PYTHONDONTWRITEBYTECODE='1')
        env.pop('DASHLIVE_VERIF', None)
        rc, out = sh(['/venv/bin/python', str(demo_run)], cwd=wt, env=env, timeout=600)
        result['demo_clean_rc'] = rc
        rc, out = sh(['git', 'apply', str(patch)], cwd=wt)
        if rc:
            print('patch does not apply:', out)
            return 2
        rc, out = sh(['git', 'diff', '--stat'], cwd=wt)
        result['diffstat'] = out.strip().splitlines()[-1] if out.strip() else ''
        touched = sh(['git', 'diff', '--name-only'], cwd=wt)[1].split()
        result['files'] = touched
        if any(t.startswith('tests/') for t in touched):
            print('change touches tests/')
            return 2
        rc, out = sh(PYTEST, cwd=wt, env=env)
        tail = out.strip().splitlines()[-1] if out.strip() else ''
        result['tests'] = tail
        rc, out = sh(['/venv/bin/python', str(demo_run)], cwd=wt, env=env, timeout=600)
        result['demo_patched_rc'] = rc
        result['demo_patched_tail'] = out.strip().splitlines()[-3:]
    finally:
        sh(['git', '-C', str(REPO), 'worktree', 'remove', '--force', str(wt)])
        shutil.rmtree(wt.parent, ignore_errors=True)
    ok = (re.search(r'\b87 passed\b', result.get('tests', '')) and '32 errors' in result.get('tests', '')
          and 'failed' not in result.get('tests', '')
          and result['demo_clean_rc'] == 0 and result['demo_patched_rc'] == 1)
    print(json.dumps(result, indent=1))
    if not ok:
        print('NOT CONFIRMED')
        return 1
    dst = SEEDED / name
    dst.mkdir(parents=True, exist_ok=True)
    shutil.copy(patch, dst / 'patch.diff')
    # helpers the demonstration imports (stub modules, shared harness files) travel with it and
    # the sub-agent's absolute output path is rewritten to the stored location
    demo_text = demo.read_text()
    helpers = []
    texts = [demo_text]
    cands = [e for e in src.glob('*')
             if not re.fullmatch(r'(patch\d*\.diff|demo\d*\.py|meta\.json|__pycache__)', e.name)]
    grew = True
    while grew:             # transitive: a helper may import the stub directory
        grew = False
        for extra in cands:
            if extra not in helpers and any(extra.stem in t for t in texts):
                helpers.append(extra)
                if extra.is_file() and extra.suffix == '.py':
                    texts.append(extra.read_text())
                grew = True
    for extra in helpers:
        if extra.is_dir():
            shutil.copytree(extra, dst / extra.name, dirs_exist_ok=True,
                            ignore=shutil.ignore_patterns('__pycache__', '*.pyc'))
        else:
            shutil.copy(extra, dst / extra.name)
    (dst / 'demo.py').write_text(demo_text)
    for f in [dst / 'demo.py'] + [x for x in dst.rglob('*.py')]:
        t = f.read_text()
        t2 = t.replace(str(src), str(dst))
        if agent_wt:
            t2 = t2.replace(agent_wt, str(REPO))     # the stored demonstration runs against /repo
        if t2 != t:
            f.write_text(t2)
    rc, out = sh(['/venv/bin/python', str(dst / 'demo.py')], cwd=REPO, timeout=600,
                 env=dict(os.environ, PYTHONDONTWRITEBYTECODE='1'))
    if rc != 0:
        print('stored demo does not exit 0 on the clean tree:', out[-600:])
        return 1
    meta = {
        'name': name,
        'property': meta_all['property'],
        'origin': 'fresh sub-agent given only the property text and a scratch worktree' + (' (second round: asked for less obvious mechanisms)' if 'seed_out2' in str(src) else ' (third round: told which kinds of slips earlier rounds had used)' if 'seed_out3' in str(src) else ' (fourth round: told that earlier rounds are all caught, asked for inputs a harness is least likely to generate)' if 'seed_out4' in str(src) else ' (fifth round: same, with the list of covered kinds extended by the fourth round)' if 'seed_out5' in str(src) else ' (sixth round, session 4: six properties, asked for subtle breakage different from the obvious kinds)' if '/r6_' in str(src) else ''),
        'summary': entry.get('summary'),
        'trigger': entry.get('trigger'),
        'files': result['files'],
        'confirmed': {'tests': result['tests'], 'demo_rc_clean_tree': 0, 'demo_rc_with_change': 1,
                      'demo_output_with_change': result['demo_patched_tail']},
        'checks': {},
    }
    (dst / 'meta.json').write_text(json.dumps(meta, indent=1) + '\n')
    print('CONFIRMED ->', dst)
    return 0


def run(name: str, checks: list[str], tier: str = 'quick') -> int:
    d = SEEDED / name
    meta = json.loads((d / 'meta.json').read_text())
    checks = checks or [meta['property']]
    rc, out = sh(['git', '-C', str(REPO), 'status', '--porcelain'])
    if out.strip():
        print('/repo is not clean:', out)
        return 2
    rc, out = sh(['git', '-C', str(REPO), 'apply', str(d / 'patch.diff')])
    if rc:
        print('patch does not apply to /repo:', out)
        return 2
    try:
        for c in checks:
            env = dict(os.environ, VERIF_NO_EVIDENCE='1')
            rc, out = sh([str(VERIF / 'check'), c, '--tier', tier, '--no-evidence'], cwd=VERIF, env=env, timeout=3600)
            mechs = sorted(set(re.findall(r'^  mechanism=([^:]+):', out, re.M)))
            verdict = re.search(r'verdict=(\S+)', out)
            meta['checks'][f'{c}/{tier}'] = {
                'exit': rc, 'verdict': verdict.group(1) if verdict else None,
                'caught': rc == 1, 'mechanisms': mechs[:12],
                'first_message': (re.findall(r'^  mechanism=(.*)$', out, re.M) or [''])[0][:400]}
            print(name, c, tier, 'exit', rc, verdict.group(1) if verdict else None, mechs[:6])
    finally:
        sh(['git', '-C', str(REPO), 'checkout', '--', '.'])
        sh(['git', '-C', str(REPO), 'clean', '-fdq', '--', 'dashlive', 'templates'])
        # replays written while a seeded change was applied are not evidence about the real tree
        for c in checks:
            shutil.rmtree(VERIF / 'replays' / c, ignore_errors=True)
    (d / 'meta.json').write_text(json.dumps(meta, indent=1) + '\n')
    return 0


def table() -> int:
    rows = []
    for d in sorted(SEEDED.glob('*/meta.json')):
        m = json.loads(d.read_text())
        caught = [k for k, v in m['checks'].items() if v.get('caught')]
        missed = [k for k, v in m['checks'].items() if not v.get('caught')]
        mech = ''
        for k in caught:
            mech = ', '.join(m['checks'][k]['mechanisms'][:2])
            break
        rows.append(f"| {m['name']} | {m['property']} | {(m.get('summary') or '')[:110]} | "
                    f"{', '.join(caught) or '-'} | {mech[:90]} | {', '.join(missed) or '-'} |")
    print('| change | property | what was changed | caught by | first mechanisms | not caught by |')
    print('|---|---|---|---|---|---|')
    print('\n'.join(rows))
    return 0


if __name__ == '__main__':
    cmd = sys.argv[1]
    if cmd == 'confirm':
        sys.exit(confirm(Path(sys.argv[2]), sys.argv[3], sys.argv[4]))
    if cmd == 'run':
        tier = 'quick'
        args = sys.argv[3:]
        if args and args[0] in ('--thorough',):
            tier = 'thorough'
            args = args[1:]
        sys.exit(run(sys.argv[2], args, tier))
    if cmd == 'table':
        sys.exit(table())
