#!/usr/bin/env python3
"""Re-runs the quick check of each seeded change in scratch worktrees of /repo (outside /repo and /verif),
several at a time; records the outcome in seeded/<name>/meta.json like `seeded.py run`.
usage: seeded_parallel.py [-j N] [names...]"""
import json, os, re, subprocess, sys, threading, queue
from pathlib import Path
VERIF = Path(__file__).resolve().parents[1]
SEEDED = VERIF / 'seeded'
REPO = '/repo'

def sh(cmd, **kw):
    p = subprocess.run(cmd, capture_output=True, text=True, **kw)
    return p.returncode, p.stdout + p.stderr

def worker(k, q, results):
    wt = f'/tmp/sw_{k}'
    sh(['git', '-C', REPO, 'worktree', 'remove', '--force', wt])
    rc, out = sh(['git', '-C', REPO, 'worktree', 'add', '-f', '--detach', wt, 'HEAD'])
    assert rc == 0, out
    try:
        while True:
            try:
                name = q.get_nowait()
            except queue.Empty:
                return
            d = SEEDED / name
            meta = json.loads((d / 'meta.json').read_text())
            checks = [meta['property']]
            if name == 'C01-4':
                checks = ['C18']
            sh(['git', '-C', wt, 'checkout', '--', '.'])
            sh(['git', '-C', wt, 'clean', '-fdq'])
            rc, out = sh(['git', '-C', wt, 'apply', str(d / 'patch.diff')])
            if rc:
                results[name] = 'PATCH DOES NOT APPLY'
                continue
            for c in checks:
                env = dict(os.environ, VERIF_REPO=wt)
                rc, out = sh([str(VERIF / 'check'), c, '--tier', 'quick', '--no-evidence'], cwd=VERIF, env=env, timeout=3600)
                mechs = sorted(set(re.findall(r'^  mechanism=([^:]+):', out, re.M)))
                verdict = re.search(r'verdict=(\S+)', out)
                meta['checks'][f'{c}/quick'] = {
                    'exit': rc, 'verdict': verdict.group(1) if verdict else None, 'caught': rc == 1,
                    'mechanisms': mechs[:12],
                    'first_message': (re.findall(r'^  mechanism=(.*)$', out, re.M) or [''])[0][:400]}
                results[name] = f'{c} exit {rc} {mechs[:3]}'
                print(name, results[name], flush=True)
            (d / 'meta.json').write_text(json.dumps(meta, indent=1) + '\n')
    finally:
        sh(['git', '-C', REPO, 'worktree', 'remove', '--force', wt])
        sh(['git', '-C', REPO, 'worktree', 'prune'])

def main():
    args = sys.argv[1:]
    j = 3
    if args and args[0] == '-j':
        j = int(args[1]); args = args[2:]
    names = args or sorted(p.parent.name for p in SEEDED.glob('*/meta.json'))
    q = queue.Queue()
    for n in names:
        q.put(n)
    results = {}
    ts = [threading.Thread(target=worker, args=(k, q, results)) for k in range(j)]
    [t.start() for t in ts]; [t.join() for t in ts]
    missed = [n for n in names if ' exit 1 ' not in results.get(n, '')]
    print('NOT CAUGHT:', missed)

main()
