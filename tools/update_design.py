#!/usr/bin/env python3
"""rewrites the seeded-change table of DESIGN.md (between the SEEDED-TABLE markers)"""
import subprocess
from pathlib import Path
V = Path(__file__).resolve().parent.parent
table = subprocess.run(['python3', str(V / 'tools' / 'seeded.py'), 'table'], capture_output=True, text=True, check=True).stdout
p = V / 'DESIGN.md'
s = p.read_text()
a = s.index('<!-- SEEDED-TABLE-BEGIN -->') + len('<!-- SEEDED-TABLE-BEGIN -->')
b = s.index('<!-- SEEDED-TABLE-END -->')
p.write_text(s[:a] + '\n' + table + s[b:])
print(table.count('\n'), 'rows')
