#!/usr/bin/env python3
"""rebuild the status:"fixed" part of known_findings.json: one entry per "fix:" commit of /repo
(property taken from tools/fix_props.json; a commit without an entry there is an error)."""
import json
import subprocess
import sys
from pathlib import Path
V = Path(__file__).resolve().parent.parent
props = json.loads((V / 'tools' / 'fix_props.json').read_text())
repo = sys.argv[1] if len(sys.argv) > 1 else '/repo'
log = subprocess.run(['git', '-C', repo, 'log', '--reverse', '--format=%h %s', 'd4c3b2dc..HEAD'],
                     capture_output=True, text=True, check=True).stdout.strip().splitlines()
d = json.loads((V / 'known_findings.json').read_text())
known = [f for f in d['findings'] if f['status'] == 'known']
fixed = []
missing = []
for line in log:
    h, subj = line.split(' ', 1)
    if not subj.startswith('fix:'):
        continue
    if h not in props:
        missing.append(line)
        continue
    subj = subj[len('fix: '):]
    fixed.append({'property': props[h], 'status': 'fixed', 'commit': h, 'mechanism': subj,
                  'what': f'fixed: property={props[h]} {h} {subj}'})
if missing:
    sys.exit('no property recorded in tools/fix_props.json for:\n' + '\n'.join(missing))
d['findings'] = known + fixed
(V / 'known_findings.json').write_text(json.dumps(d, indent=1) + '\n')
print(len(known), 'known', len(fixed), 'fixed')
