#!/bin/bash
# sweep.sh <tier> <seed> [ids...] : run checks without touching evidence, summary lines to stdout
tier=$1; seed=$2; shift 2
ids=${@:-C01 C02 C03 C04 C05 C06 C07 C08 C09 C10 C11 C12 C13 C14 C15 C16 C17 C18 C19 C20}
for id in $ids; do
  out=$(./check $id --tier $tier --seed $seed --no-evidence 2>&1)
  rc=$?
  echo "== $id tier=$tier seed=$seed exit=$rc"
  echo "$out" | grep -v "^KNOWN-FINDING" | cut -c1-600 | tail -12
done
