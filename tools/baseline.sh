#!/bin/bash
# runs the repository's own pinned test suite (hooks off) and prints the summary line
cd /repo && env -u DASHLIVE_VERIF /venv/bin/python -m pytest -q -p no:cacheprovider --timeout=900 --continue-on-collection-errors -x -k "$1" 2>&1 | tail -${2:-4}
