"""Self-tests of the harness' trusted base (run by setup.sh)."""
import sys


def main() -> int:
    from dlv.core import setup_paths
    setup_paths()
    failures = []
    for name in ('shims', 'oracles'):
        try:
            mod = __import__(f'dlv.selftests_{name}', fromlist=['run'])
        except ModuleNotFoundError:
            continue
        for msg in mod.run():
            failures.append(f'{name}: {msg}')
    for f in failures:
        print('SELFTEST FAIL', f)
    return 1 if failures else 0


if __name__ == '__main__':
    sys.exit(main())
