"""Builds the real Flask application of the /repo working tree inside a throw-away
directory, with a virtual clock and a recording client boundary.

Nothing is written into /repo or /verif: database, blobs and pycache live in a
mkdtemp directory that is removed on close().
"""
from __future__ import annotations

import datetime as _real_datetime
import hashlib
import logging
import os
import shutil
import tempfile
import traceback
from pathlib import Path
from typing import Any

from dlv.core import REPO, setup_paths

FIXTURES = REPO / 'tests' / 'fixtures'
UTC = _real_datetime.timezone.utc

CLOCK_MODULES = [
    'dashlive.server.requesthandler.manifest_context',
    'dashlive.server.requesthandler.media_requests',
    'dashlive.server.requesthandler.utctime',
    'dashlive.server.requesthandler.multi_period_streams',
]
VALIDATOR_CLOCK_MODULES = [
    'dashlive.mpeg.dash.validator.manifest',
    'dashlive.mpeg.dash.validator.validator',
]


class VirtualClock:
    """One controlled instant; substituted for `datetime.datetime.now` in the dashlive
    modules that read the clock for stream timing (and only there)."""

    def __init__(self) -> None:
        self.instant = _real_datetime.datetime(2024, 1, 1, 12, 0, 0, tzinfo=UTC)
        self.reads = 0
        clock = self

        class _Meta(type(_real_datetime.datetime)):
            def __instancecheck__(cls, obj):
                return isinstance(obj, _real_datetime.datetime)

            def __subclasscheck__(cls, sub):
                return issubclass(sub, _real_datetime.datetime)

        class VDateTime(_real_datetime.datetime, metaclass=_Meta):
            @classmethod
            def now(cls, tz=None):
                clock.reads += 1
                t = clock.instant
                if tz is None:
                    return t.astimezone(UTC).replace(tzinfo=None)
                off = tz.utcoffset(None) or _real_datetime.timedelta(0)
                return (t.astimezone(UTC) + off).replace(tzinfo=tz)

            @classmethod
            def utcnow(cls):
                clock.reads += 1
                return clock.instant.astimezone(UTC).replace(tzinfo=None)

        class _Proxy:
            datetime = VDateTime

            def __getattr__(self, name):
                return getattr(_real_datetime, name)

        self.proxy = _Proxy()
        self.VDateTime = VDateTime

    def set(self, instant: _real_datetime.datetime) -> None:
        assert instant.tzinfo is not None
        self.instant = instant

    def advance(self, seconds: float) -> None:
        self.instant += _real_datetime.timedelta(seconds=seconds)

    def install(self, validator: bool = False) -> None:
        import importlib
        for name in CLOCK_MODULES + (VALIDATOR_CLOCK_MODULES if validator else []):
            mod = importlib.import_module(name)
            if getattr(mod, 'datetime', None) is _real_datetime or hasattr(getattr(mod, 'datetime', None), 'datetime'):
                mod.datetime = self.proxy


class Recorder:
    """Client-boundary event log: call recorded before invocation, reply after."""

    def __init__(self) -> None:
        self.seq = 0
        self.open_calls: dict[int, dict] = {}
        self.requests = 0
        self.status_hist: dict[int, int] = {}
        self.exceptions: list[dict] = []
        self.last_exception: dict | None = None

    def call(self, **kw) -> int:
        self.seq += 1
        self.open_calls[self.seq] = kw
        return self.seq

    def reply(self, seq: int, status: int) -> None:
        self.open_calls.pop(seq, None)
        self.requests += 1
        self.status_hist[status] = self.status_hist.get(status, 0) + 1


class AppEnv:
    ADMIN = ('admin', 'suuuperSecret!')
    MEDIA = ('media', 'm3d!a')
    USER = ('user', 'pa55word')

    def __init__(self, users: bool = True, fast_passwords: bool = True, allowed_domains: str | None = '*') -> None:
        setup_paths()
        self.tmp = Path(tempfile.mkdtemp(prefix='dlv_app_'))
        self.blob_folder = self.tmp / 'media' / 'blobs'
        logging.disable(logging.CRITICAL)
        from dashlive.server.app import create_app
        from dashlive.server import models
        self.models = models
        config = {
            'BLOB_FOLDER': str(self.blob_folder),
            'DASH': {
                **({'ALLOWED_DOMAINS': allowed_domains} if allowed_domains is not None else {}),
                'CSRF_SECRET': 'test.csrf.secret',
                'DEFAULT_ADMIN_USERNAME': self.ADMIN[0],
                'DEFAULT_ADMIN_PASSWORD': self.ADMIN[1],
            },
            'UPLOAD_FOLDER': str(self.tmp / 'media' / 'uploads'),
            'SECRET_KEY': 'cookie.secret',
            'SQLALCHEMY_DATABASE_URI': f'sqlite:///{self.tmp}/models.db3',
            'TESTING': False,
            'PROPAGATE_EXCEPTIONS': False,
            'LOG_LEVEL': 'critical',
            'PREFERRED_URL_SCHEME': 'http',
            'SERVER_NAME': None,
        }
        if fast_passwords:
            # bcrypt with 12 rounds costs 0.3 s per hash; the hash scheme is not under test
            from dashlive.server.models import user as user_mod
            try:
                user_mod.password_context.update(bcrypt__rounds=4)
            except Exception:
                pass
        self.app = create_app(config=config, instance_path=str(self.tmp),
                              create_default_user=False, wss=False)
        self.clock = VirtualClock()
        self.clock.install()
        self.rec = Recorder()
        import flask
        flask.got_request_exception.connect(self._on_exception, self.app)
        if users:
            with self.app.app_context():
                for (name, pw), groups in ((self.ADMIN, models.Group.ADMIN),
                                           (self.USER, models.Group.USER),
                                           (self.MEDIA, models.Group.USER + models.Group.MEDIA)):
                    models.db.session.add(models.User(
                        username=name, email=f'{name}@dashlive.unit.test',
                        password=models.User.hash_password(pw),
                        groups_mask=groups, must_change=False))
                models.User.get_guest_user()
                models.db.session.commit()
        self.stored: dict[tuple[str, str], bytes] = {}   # (directory, name) -> file bytes
        self.defaults_form: dict[str, dict] = {}          # directory -> saved per-stream defaults (cgi form)

    # ------------------------------------------------------------------ lifecycle
    def close(self) -> None:
        try:
            with self.app.app_context():
                self.models.db.session.remove()
                self.models.db.engine.dispose()
        except Exception:
            pass
        shutil.rmtree(self.tmp, ignore_errors=True)

    def _on_exception(self, sender, exception, **extra) -> None:
        info = {'type': type(exception).__name__, 'repr': repr(exception)[:300],
                'traceback': ''.join(traceback.format_exception(exception))[-2500:]}
        self.rec.last_exception = info
        if len(self.rec.exceptions) < 50:
            self.rec.exceptions.append(info)

    # ------------------------------------------------------------------ client boundary
    def client(self, **kw):
        return self.app.test_client(**kw)

    def get(self, url: str, client=None, headers: dict | None = None, method: str = 'GET', **kw):
        c = client or self.client()
        self.rec.last_exception = None
        seq = self.rec.call(method=method, url=url, headers=headers, vtime=self.clock.instant.isoformat())
        resp = c.open(url, method=method, headers=headers or {}, **kw)
        self.rec.reply(seq, resp.status_code)
        return resp

    # ------------------------------------------------------------------ streams
    def add_stream(self, directory: str, title: str, files: dict[str, bytes | Path],
                   timing_ref: str | None = 'auto', marlin_la_url: str | None = None,
                   playready_la_url: str | None = None, defaults: dict | None = None,
                   index: bool = True, copy: bool = False):
        """Registers a stream whose media files are given as name -> bytes/Path, indexes each
        with the real indexer (MediaFile.parse_media_file) and sets the timing reference."""
        models = self.models
        sdir = self.blob_folder / directory
        sdir.mkdir(parents=True, exist_ok=True)
        with self.app.app_context():
            from dashlive.drm.playready import PlayReady
            stream = models.Stream(
                title=title, directory=directory,
                marlin_la_url=marlin_la_url if marlin_la_url is not None else f'ms3://localhost/marlin/{directory}',
                playready_la_url=playready_la_url if playready_la_url is not None else PlayReady.TEST_LA_URL)
            if defaults is not None:
                stream.defaults = defaults
            models.db.session.add(stream)
            mfs = []
            for name in sorted(files):
                src = files[name]
                dest = sdir / f'{name}.mp4'
                if isinstance(src, (bytes, bytearray)):
                    dest.write_bytes(src)
                    data = bytes(src)
                else:
                    if copy:
                        shutil.copyfile(src, dest)
                    else:
                        os.symlink(src, dest)
                    data = Path(src).read_bytes()
                self.stored[(directory, name)] = data
                blob = models.Blob(
                    filename=f'{name}.mp4', size=len(data),
                    sha1_hash=hashlib.sha1(data).hexdigest(),
                    content_type='application/mp4', auto_delete=copy or isinstance(src, (bytes, bytearray)))
                mf = models.MediaFile(name=name, stream=stream, blob=blob)
                models.db.session.add(blob)
                models.db.session.add(mf)
                mfs.append(mf)
            models.db.session.commit()
            if index:
                for mf in mfs:
                    mf.parse_media_file()
                models.db.session.commit()
                spk = stream.pk
                # reload from the database, as the real handlers do: a freshly indexed
                # Representation object has not counted its segments yet
                models.db.session.remove()
                stream = models.Stream.get(pk=spk)
                mfs = sorted(stream.media_files, key=lambda m: m.name)
                ref = None
                if timing_ref == 'auto':
                    for mf in mfs:
                        if mf.content_type == 'video' and mf.representation is not None:
                            ref = mf
                            break
                elif timing_ref is not None:
                    ref = models.MediaFile.get(name=timing_ref)
                if ref is not None:
                    stream.timing_reference = ref.as_stream_timing_reference()
                models.db.session.commit()
            return stream.pk

    def add_fixture_stream(self, name: str = 'bbb', with_text: bool = True, only: set[str] | None = None,
                           **kw):
        files = {}
        for p in sorted((FIXTURES / name).glob(f'{name}_*.mp4')):
            if not with_text and '_t' in p.stem:
                continue
            if only is not None and p.stem not in only:
                continue
            files[p.stem] = p
        title = {'bbb': 'Big Buck Bunny', 'tears': 'Tears of Steel'}.get(name, name)
        kw.setdefault('title', title)
        return self.add_stream(name, files=files, **kw)


    def set_stream_defaults(self, directory: str, form: dict) -> dict:
        """Saves per-stream default options through the real endpoint (POST /stream/<pk>/defaults as the
        media user, with a harvested CSRF token); returns what the server stored."""
        from dlv.session import UserSession
        from dlv.mgmt import Harvest, execute, op_stream_defaults
        with self.app.app_context():
            spk = self.models.Stream.get(directory=directory).pk
        sess = UserSession(self, *self.MEDIA)
        r = execute(sess, Harvest(sess, spk), op_stream_defaults(spk, form))
        if r.status_code >= 400:
            raise RuntimeError(f'saving stream defaults failed: {r.status_code} {r.data[:200]!r}')
        with self.app.app_context():
            self.models.db.session.remove()
            stored = self.models.Stream.get(pk=spk).defaults
        if not stored:
            raise RuntimeError(f'stream defaults were not stored: {stored!r}')
        self.defaults_form[directory] = dict(form)
        return dict(stored)

    # (no bugs=saio here: that default would switch the saio check of C03 off for the whole stream)
    DEFAULTS_FORM = {'depth': '2400', 'events': 'ping', 'leeway': '9',
                     'playready__la_url': 'https://lic.dflt.example.test/pr?a=1'}

    def add_defaults_stream(self, directory: str = 'dflt', prefix: str = 'dfl') -> dict:
        """A stream over the bbb fixture files (own file names: media names are global) that carries
        saved per-stream default options which differ from the global defaults."""
        files = {}
        for stem in ('bbb_v7', 'bbb_a1', 'bbb_t1', 'bbb_v7_enc', 'bbb_a1_enc'):
            files[stem.replace('bbb', prefix)] = FIXTURES / 'bbb' / f'{stem}.mp4'
        self.add_stream(directory, title='Stream with saved defaults', files=files)
        return self.set_stream_defaults(directory, self.DEFAULTS_FORM)


    def add_legacy_names_stream(self, directory: str = 'lgcy', prefix: str = 'lgc') -> None:
        """A stream whose MediaFile rows are named with the file extension ("lgc_v720p.mp4"), the form
        older databases hold and the media routes still resolve; the files are indexed under those names,
        so Representation ids (and the URLs of a manifest) are the stems. The stems end in characters that
        also occur in the extension (p, m, 4)."""
        files = {}
        for name, stem in ((f'{prefix}_v720p', 'bbb_v7'), (f'{prefix}_a1m', 'bbb_a1'),
                           (f'{prefix}_v7_enc4', 'bbb_v7_enc'), (f'{prefix}_a1_enc', 'bbb_a1_enc')):
            files[name] = FIXTURES / 'bbb' / f'{stem}.mp4'
        spk = self.add_stream(directory, title='Stream with legacy media names', files=files, index=False)
        models = self.models
        with self.app.app_context():
            stream = models.Stream.get(pk=spk)
            for mf in stream.media_files:
                self.stored[(directory, mf.name)] = self.stored.get((directory, mf.name))
                mf.name = f'{mf.name}.mp4'
            models.db.session.commit()
            for mf in stream.media_files:
                mf.parse_media_file()
            models.db.session.commit()
            models.db.session.remove()
            stream = models.Stream.get(pk=spk)
            ref = next(mf for mf in sorted(stream.media_files, key=lambda m: m.name)
                       if mf.content_type == 'video' and not mf.encrypted)
            stream.timing_reference = ref.as_stream_timing_reference()
            models.db.session.commit()
            # ... and, as rows written by an earlier release, their stored index says so
            import copy
            for mf in stream.media_files:
                rep = copy.deepcopy(dict(mf.rep))
                rep['version'] = 3
                mf.rep = rep
            models.db.session.commit()
            models.db.session.remove()

    def add_dotted_names_stream(self, directory: str = 'dots') -> int:
        """A stream whose media file names contain dots (uploads keep the dots of a file name:
        "promo_1.5mbps_v1.mp4" is stored as media file "promo_1.5mbps_v1"), and one whose name has
        upper-case letters (URLs carry the lower-case Representation id)."""
        files = {'dot_1.5m_v1': FIXTURES / 'bbb' / 'bbb_v7.mp4', 'dot-a.b_a1': FIXTURES / 'bbb' / 'bbb_a1.mp4'}
        files['Dot_UP_t1'] = FIXTURES / 'bbb' / 'bbb_t1.mp4'
        return self.add_stream(directory, title='Dotted media names', files=files)


def parse_utc(text: str) -> _real_datetime.datetime:
    """Independent minimal xs:dateTime reader (used by oracles on manifest attributes)."""
    import re
    m = re.match(r'^(\d{4})-(\d\d)-(\d\d)T(\d\d):(\d\d):(\d\d)(?:\.(\d+))?(Z|[+-]\d\d:\d\d)?$', text)
    if not m:
        raise ValueError(f'not an xs:dateTime: {text!r}')
    y, mo, d, h, mi, s, frac, zone = m.groups()
    us = int((frac or '').ljust(6, '0')[:6] or 0)
    if zone in (None, 'Z'):
        tz = UTC
    else:
        mins = int(zone[1:3]) * 60 + int(zone[4:6])
        tz = _real_datetime.timezone(_real_datetime.timedelta(minutes=mins if zone[0] == '+' else -mins))
    return _real_datetime.datetime(int(y), int(mo), int(d), int(h), int(mi), int(s), us, tzinfo=tz)
