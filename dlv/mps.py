"""Multi-period stream helpers for harness workloads."""
from __future__ import annotations

import datetime


def add_mps_db(env, name: str, periods: list[dict], title: str | None = None) -> dict:
    """Create a multi-period stream directly in the database.
    periods: [{'pid', 'stream', 'start' (s), 'duration' (s), 'tracks': [(content_type, track_id, role)]}]
    -> {'name', 'periods': [{'pk', 'pid', ...}]}"""
    models = env.models
    from dashlive.mpeg.dash.content_role import ContentRole
    out = {'name': name, 'periods': []}
    with env.app.app_context():
        mps = models.MultiPeriodStream(name=name, title=title or f'multi-period {name}')
        models.db.session.add(mps)
        for idx, p in enumerate(periods, start=1):
            stream = models.Stream.get(directory=p['stream'])
            prd = models.Period(
                pid=p['pid'], parent=mps, ordering=idx, stream=stream,
                start=datetime.timedelta(seconds=p['start']),
                duration=datetime.timedelta(seconds=p['duration']))
            models.db.session.add(prd)
            for ctype, tid, role in p['tracks']:
                ct = models.ContentType.get(name=ctype)
                models.db.session.add(models.AdaptationSet(
                    period=prd, track_id=tid, role=getattr(ContentRole, role.upper()),
                    content_type=ct))
            models.db.session.flush()
            out['periods'].append({**p, 'pk': prd.pk})
        models.db.session.commit()
    return out


def add_simple_mps(env) -> str:
    """bbb[4 s .. 36 s] + tears[8 s .. 52 s]; returns one media-segment URL of the first period."""
    info = add_mps_db(env, 'testmps', [
        {'pid': 'p1', 'stream': 'bbb', 'start': 4, 'duration': 32,
         'tracks': [('video', 1, 'main'), ('audio', 2, 'main')]},
        {'pid': 'p2', 'stream': 'tears', 'start': 8, 'duration': 44,
         'tracks': [('video', 1, 'main'), ('audio', 2, 'main')]},
    ])
    return f"/mps/vod/testmps/{info['periods'][0]['pk']}/bbb_v7/3.m4v"
