"""C02 -- served segments carry exactly the advertised time, number and duration.

Same fetches as C01; the deciding oracle is the independent ISO-BMFF walker reading
tfdt / mfhd / trun of every served segment, the gapless-timeline rule on the manifest,
and the rational alignment check (served decode time - stored position) mod reference
duration, where the stored position is identified through the mdat payload hash.
"""
from __future__ import annotations

from dlv.checks import c01
from dlv.core import ShardCtx, ShardResult

PROPERTY = 'C02'
LEVEL = 'exploration'
ORACLES = {'c02'}
RULE = c01.RULE + (' C02 additionally counts, per case, the served segments whose tfdt/mfhd/sample durations were '
                   'read back; clocks reach > 2^32 ticks (64-bit tfdt) and several loops per window.')
ASSUMPTIONS = c01.ASSUMPTIONS + [
    'oracle: own ISO-BMFF walker (struct only); stored segment identified by SHA-1 of the mdat payload',
    '$Number$ tolerance: max stored segment duration / 2 + |reference duration - own duration| + 1 tick',
    'alignment tolerance: one tick of the track timescale',
]
REQUIRED_COUNTERS = ['c02.segments', 'c02.by_time', 'c02.by_number', 'c02.timeline_pairs',
                     'c02.alignment_checked', 'c02.tfdt_over_32bit', 'reach.get_segment_index',
                     'reach.generate_media_segment']


def shards(tier: str) -> int:
    return 16


def run_shard(ctx: ShardCtx) -> ShardResult:
    return c01.run_shard(ctx, oracles=ORACLES)
