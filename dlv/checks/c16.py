"""C16 -- no request causes an uncontrolled failure; injected errors fire exactly as asked.

Fault-enumeration monitor at the HTTP boundary and on the parser entry point:
(A) every route (discovered at run time) with concrete arguments x every registered option name
    x a type-confusion value catalogue (singly and in sampled pairs) x streams with missing
    pieces: any status >= 500, unhandled exception or non-termination is a violation;
(B) MP4 mutation operators on stored files fed to Mp4Atom.load (eager and lazy) and to the
    upload -> index -> serve endpoints;
(C) sequence monitor over error-injection histories sharing one client session.
Termination: a wall watchdog marks a suspect, which is re-run alone under a sys.monitoring
line/jump budget (deterministic verdict).
"""
from __future__ import annotations

import datetime
import struct
import tracemalloc

from dlv.core import ShardCtx, ShardResult

PROPERTY = 'C16'
LEVEL = 'fault_enumeration'
RULE = ('(A) route table x {existing, missing-piece streams: clear-only, no audio, no timing reference, unindexed file, empty} '
        'x every registered cgi name x 41 type-confusion values (empty, none, negative, 0, huge, float, list, wrong enum, '
        'wrong separator, unicode, percent-escapes, repeated key) singly + sampled pairs; (B) truncate at every box boundary +-1, '
        'header bit flips, size := 0/1/7/2^32-1/beyond, type := random, sample_count := 2^32-1 on fixture init/media/whole '
        'files -> parser (eager, lazy) and upload/index/serve; (C) {v,a,t,m}err specs x failures in {absent,0,1,3} x interleaved '
        'request sequences; (A2) 23 route templates x 18 boundary / type-confused values in the path parameters (segment number '
        'and time, representation, stream, manifest and mode names, patch publish time, period and stream primary keys); '
        '(D) every management operation of the catalogue sent by an authorised user with one field of its JSON / form body '
        'replaced by a type-confused value or removed. Non-trivial = a fault was injected and the outcome judged; distinct = '
        '(part, route or operator, option name, value class, outcome class).')
ASSUMPTIONS = [
    'the only legitimate 5xx are synthetic ones asked for through {v,a,t,m}err; part (A) therefore never sends a 5xx code in those options',
    'termination: 6 s wall watchdog = suspect only; verdict = exceeding 100,000,000 line/jump events when re-run alone (the heaviest legitimate request - a multi-period manifest with the maximum 24 h window - needs about 10,000,000); a suspect that finishes within the budget is counted as slow-but-terminating',
    'parser: returning or raising an Exception subclass within the budget and within 64 x input + 64 MiB of traced allocations (15 s wall suspect, 40,000,000 line/jump events verdict) is a reported parse error',
    'POST /media/inspect needs Flask\'s optional async support (asgiref), absent from this environment: its RuntimeError is not judged; the outbound-fetch url field is never used (no network)',
    'shims + werkzeug test client as HTTP boundary',
]
REQUIRED_COUNTERS = ['a.requests_with_headers', 'e.requests', 'e.followed_urls', 'a.requests', 'a.path_requests', 'd.requests', 'a.options_covered', 'b.parser_inputs', 'b.http_uploads', 'c.sequences',
                     'c.synthetic_seen', 'reach.check_for_synthetic_http_error', 'reach.calculate_injected_error_segments',
                     'reach.load']

UTC = datetime.timezone.utc
VALUES = [
    ('empty', ''), ('none', 'none'), ('neg', '-1'), ('zero', '0'), ('one', '1'), ('huge', '99999999999999999999'),
    ('float', '1.5'), ('list', 'a,b'), ('word', 'bogus'), ('bool', 'true'), ('nul', '%00'), ('unicode', 'é中'),
    ('brackets', '[1]'), ('braces', '{0}{cfgs}'), ('iso', '2024-01-01T00:00:00Z'), ('isobad', '2024-13-45T99:99:99Z'),
    ('err404', '404=1'), ('errhalf', '404='), ('eq', '='), ('hms', '12:00:00Z'), ('dash', 'all-'), ('dashloc', 'playready-bogus'),
    ('comma', ','), ('pct', '%'), ('space', ' '), ('long', 'x' * 3000),
    # added after a fresh reader of the code found 5xx answers outside the first catalogue
    ('duration', 'PT10S'), ('negduration', '-PT5S'), ('u32max', '4294967295'), ('i32over', '2147483648'),
    ('errtime', '404=00:00:00Z'), ('erriso', '404=2024-06-06T12:30:00Z'), ('errdur', '404=PT10S'),
    ('symbolic', 'epoch'), ('today', 'today'), ('unidigits', '١٢٣'), ('plus', '+5'), ('exp', '1e3'),
    ('naive-iso', '2024-06-06T00:00:00'), ('date-only', '2024-06-06'), ('u32near', '4000000000'),
]
# values for the parameters in the path itself (segment number / time, patch publish time, names)
PATH_VALUES = ['0', '1', '-1', '99999999999999', '99999999999999999999999', '4294967296', 'abc', '1.5', '%00',
               '١٢٣', '+1', '0x10', '1e3', '', ' ', 'init', '..', 'a' * 300,
               # names of things that exist, with and without the extension the route expects
               'hand_made', 'hand_made.mpd', 'manifest_e', 'manifest_vod_aiv.mpd', 'bbb_v7', 'bbb_v7.mp4', 'BBB_V7',
               'options.tjs', 'routemap.tjs', 'options.js', 'routemap.js', 'index.html', 'default.css',
               'bbb', 'tears', 'noref', 'noaudio', 'unindexed', 'empty', 'c16mps']
# request headers a proxy, a browser or a hostile client adds
HEADER_SETS = [
    {'X-Forwarded-Proto': 'https'}, {'X-HTTP-Scheme': 'https'}, {'X-Forwarded-Proto': 'gopher'},
    {'X-Forwarded-Proto': 'https', 'X-Forwarded-Host': 'cdn.example.test'}, {'X-Forwarded-For': '1.2.3.4, 5.6.7.8'},
    {'Host': 'evil"<&>.example.test'}, {'Origin': 'http://player.example:http'}, {'Origin': 'http://player.example:99999'},
    {'Origin': 'http://[::1'}, {'Origin': 'http://dashif.org'}, {'Origin': ''}, {'Origin': 'null'}, {'Origin': 'https://other.example.test'},
    {'Range': 'bytes=0-'}, {'Range': 'bytes=5-1'}, {'Range': 'lines=1-2'}, {'Accept': '*/*;q=0'}, {'Accept-Encoding': 'br;q=1.0, *;q=0'},
    {'Cookie': 'csrf=%%%; session=.'}, {'If-Modified-Since': 'garbage'}, {'If-None-Match': '"*"'},
    {'Content-Type': 'application/json'}, {'Content-Length': '0'}, {'Authorization': 'Bearer x.y.z'},
    {'Referer': 'javascript:alert(1)'}, {'User-Agent': ''},
]
NOW = datetime.datetime(2024, 6, 6, 12, 30, 7, 250000, tzinfo=UTC)
START = '2024-06-06T00:00:00Z'


def shards(tier: str) -> int:
    return 16


def exc_site(info: dict | None) -> str:
    if not info:
        return 'no-exception-recorded'
    tb = info.get('traceback', '')
    func = 'unknown'
    for line in tb.splitlines():
        line = line.strip()
        if line.startswith('File "') and '/dashlive/' in line and ', in ' in line:
            func = line.rsplit(', in ', 1)[1].strip()
    return f'{info.get("type")}-in-{func}'


class Fuzz:
    def __init__(self, ctx: ShardCtx, res: ShardResult) -> None:
        from dlv.appenv import AppEnv, FIXTURES
        from dlv.mps import add_mps_db
        self.ctx, self.res = ctx, res
        # every other shard runs the documented default CORS configuration (a pattern of allowed origins)
        # instead of the '*' the project's own tests use
        self.env = env = AppEnv(allowed_domains='*' if ctx.shard % 2 else None)
        fb, ft = FIXTURES / 'bbb', FIXTURES / 'tears'
        self.spk = env.add_fixture_stream('bbb')
        env.add_fixture_stream('tears')                                  # clear-only stream
        env.add_stream('noaudio', 'No audio', {'na_v7': (fb / 'bbb_v7.mp4').read_bytes()})
        env.add_stream('noref', 'No timing ref', {'nr_v7': (fb / 'bbb_v7.mp4').read_bytes(),
                                                  'nr_a1': (fb / 'bbb_a1.mp4').read_bytes()}, timing_ref=None)
        env.add_stream('unindexed', 'Unindexed', {'ui_v7': (fb / 'bbb_v7.mp4').read_bytes()}, index=False)
        env.add_stream('empty', 'Empty', {})
        self.mps = add_mps_db(env, 'c16mps', [
            {'pid': 'p1', 'stream': 'bbb', 'start': 4, 'duration': 32, 'tracks': [('video', 1, 'main'), ('audio', 2, 'main')]},
            {'pid': 'p2', 'stream': 'tears', 'start': 8, 'duration': 44, 'tracks': [('video', 1, 'main'), ('audio', 2, 'main')]}])
        # stored streams whose layout differs from the fixtures (part E)
        from dlv import synth
        synth.add_protection_variants_stream(env)        # sy5: two key ids in one track, no mehd
        synth.add_multitrack_audio_stream(env)           # mta: two audio tracks, several files each
        synth.add_retracked_video_stream(env)            # vt5: video on track 5
        env.add_dotted_names_stream()                    # dots: media names with dots
        env.add_legacy_names_stream()                    # lgcy: names with the .mp4 suffix
        self.layout_streams = ['sy5', 'mta', 'vt5', 'dots', 'lgcy']
        env.clock.set(NOW)
        self.client = env.client()
        self.legit_lines = 150000

    def close(self) -> None:
        self.env.close()

    def sample(self, part: str, what: dict) -> None:
        """up to two written-out cases per part of the workload"""
        seen = getattr(self, '_sampled', None)
        if seen is None:
            seen = self._sampled = {}
        if seen.get(part, 0) < 2:
            seen[part] = seen.get(part, 0) + 1
            self.res.samples.append(what)

    # ------------------------------------------------------------------ one guarded request
    def request(self, method: str, url: str, part: str, label: str, replay: dict, client=None, **kw):
        """-> response or None; records violations for 5xx / non-termination"""
        from dlv import guard
        env, res = self.env, self.res
        c = client or self.client

        def go():
            return env.get(url, client=c, method=method, **kw)
        outcome, value = guard.run_with_wall(go, 6.0)
        if outcome == 'timeout':
            res.count(f'{part}.suspects')
            # rebuild nothing: re-run alone under the deterministic budget
            r2 = guard.run_with_wall(lambda: guard.run_with_line_budget(go, 100_000_000), 900.0)
            if r2[0] == 'ok' and r2[1][0] == 'exceeded':
                stack = r2[1][1]
                func = 'unknown'
                for line in stack.splitlines():
                    if '/dashlive/' in line and ', in ' in line:
                        func = line.rsplit(', in ', 1)[1].strip()
                res.violation(f'request-does-not-terminate-in-{func}',
                              f'{method} {url}: more than 100,000,000 line/jump events (legitimate requests: < {self.legit_lines}); '
                              f'spinning in:\n{stack[-900:]}', replay)
            elif r2[0] == 'timeout':
                res.violation('request-does-not-terminate-in-native-code',
                              f'{method} {url}: no Python line events but > 900 s\n{r2[1][-600:]}', replay)
            else:
                # slow (or a loaded machine) but it terminates within the deterministic budget: bounded
                res.count(f'{part}.slow_but_terminating')
                if len(res.notes) < 5:
                    res.notes.append(f'slow but terminating: {url}')
            return None
        r = value
        self.sample(part, {'part': part, 'label': label, 'request': f'{method} {url}'[:300], 'status': r.status_code})
        if r.status_code >= 500:
            info = env.rec.last_exception
            if info and 'asgiref' in info.get('repr', '') or (info and "'async' extra" in info.get('repr', '')):
                res.count(f'{part}.env_async_missing')
                return r
            site = exc_site(info)
            res.violation(f'5xx-{site}',
                          f'{method} {url} -> {r.status_code}: {(info or {}).get("repr", "")[:200]} ({label})',
                          replay, traceback=(info or {}).get('traceback', '')[-1500:])
        return r

    # ------------------------------------------------------------------ (A)
    def targets(self) -> list[tuple[str, str]]:
        ppk = self.mps['periods'][0]['pk']
        n = 11250
        t = []
        for s in ('bbb', 'tears', 'noaudio', 'noref', 'unindexed', 'empty', 'nosuch'):
            for m in ('hand_made.mpd', 'manifest_a.mpd', 'manifest_e.mpd', 'manifest_n.mpd', 'manifest_vod_aiv.mpd'):
                for mode in ('live', 'vod', 'odvod'):
                    t.append((f'manifest:{m}:{mode}:{s}', f'/dash/{mode}/{s}/{m}'))
        for m in ('manifest_b.mpd', 'manifest_h.mpd', 'manifest_i.mpd', 'manifest_ef.mpd'):
            t.append((f'manifest:{m}:live:bbb', f'/dash/live/bbb/{m}'))
            t.append((f'manifest:{m}:vod:bbb', f'/dash/vod/bbb/{m}'))
        for m in ('hand_made.mpd', 'manifest_e.mpd'):
            for st in ('epoch', 'today', 'now'):
                t.append((f'manifest:{m}:live:bbb:start-{st}', f'/dash/live/bbb/{m}?start={st}'))
        t += [
            ('patch', '/patch/bbb/hand_made/1717675200'), ('patch:tears', '/patch/tears/manifest_a/1717675200'),
            ('mps-manifest:live', '/mps/live/c16mps/hand_made.mpd'), ('mps-manifest:vod', '/mps/vod/c16mps/hand_made.mpd'),
            ('mps-manifest:other', '/mps/vod/c16mps/manifest_e.mpd'),
            ('media:live:number', f'/dash/live/bbb/bbb_v7/{n}.m4v?start={START}'),
            ('media:live:time', f'/dash/live/bbb/bbb_a1/time/{(n - 1) * 176128}.m4a?start={START}'),
            ('media:live:enc', f'/dash/live/bbb/bbb_v7_enc/{n}.m4v?start={START}&drm=all'),
            ('media:live:text', f'/dash/live/bbb/bbb_t1/4500.mp4?start={START}'),
            ('media:vod', '/dash/vod/bbb/bbb_v7/3.m4v'), ('media:vod:enc', '/dash/vod/bbb/bbb_a1_enc/3.m4a?drm=clearkey'),
            ('media:init', '/dash/live/bbb/bbb_v7_enc/init.m4v?drm=playready'), ('media:init:clear', '/dash/vod/tears/tears_a1/init.m4a'),
            ('media:noref', f'/dash/live/noref/nr_v7/{n}.m4v?start={START}'), ('media:unindexed', '/dash/vod/unindexed/ui_v7/1.m4v'),
            ('media:unindexed:init', '/dash/live/unindexed/ui_v7/init.m4v'),
            ('media:odvod', '/dash/odvod/bbb/bbb_a1.m4a'),
            ('mps-media', f'/mps/vod/c16mps/{ppk}/bbb_v7/2.m4v'), ('mps-media:time', f'/mps/live/c16mps/{ppk}/bbb_a1/time/176128.m4a'),
            ('mps-init', f'/mps/live/c16mps/{ppk}/bbb_v7/init.m4v'),
            ('time:xsd', '/time/xsd'), ('time:iso', '/time/iso'), ('time:head', '/time/head'), ('time:ntp', '/time/http-ntp'),
            ('legacy', '/dash/hand_made.mpd'), ('legacy2', '/dash/bbb/enc.mpd'),
            ('html:play', '/play/live/bbb/hand_made.mpd/index.html'), ('html:play:mps', '/play/mps/vod/c16mps/hand_made.mpd/index.html'),
            ('api:cgi', '/api/cgiOptions'), ('api:manifests', '/api/manifests'), ('api:mps', '/api/multi-period-streams?ajax=1'),
            ('streams', '/streams?ajax=1'), ('stream', f'/stream/{self.spk}?ajax=1'), ('stream:html', f'/stream/{self.spk}'),
            ('defaults', f'/stream/{self.spk}/defaults'), ('home', '/'), ('es5', '/es5/'), ('libs', '/libs/options.js'),
            ('routemap', '/libs/routemap.js'), ('roles', '/api/ContentRoles.json'),
        ]
        return t

    def part_a(self) -> None:
        from dashlive.server.options.repository import OptionsRepository
        ctx, res, rng = self.ctx, self.res, self.ctx.rng
        names = sorted({o.cgi_name for o in OptionsRepository.get_dash_options()} | {'update', 'mode', 'ajax', 'fragment'})
        injection = {'verr', 'aerr', 'terr', 'merr'}
        targets = self.targets()
        plan = []
        for ti, (label, base) in enumerate(targets):
            for ni, name in enumerate(names):
                for vi, (vcls, val) in enumerate(VALUES):
                    plan.append((label, base, [(name, vcls, val)]))
        # sampled pairs
        n_pairs = ctx.scale(6000, 400000)
        for _ in range(n_pairs):
            label, base = rng.choice(targets)
            a, b = rng.sample(names, 2)
            va, vb = rng.choice(VALUES), rng.choice(VALUES)
            plan.append((label, base, [(a, va[0], va[1]), (b, vb[0], vb[1])]))
        rng.shuffle(plan)
        limit = ctx.scale(len(plan) // 10, len(plan))
        covered = set()
        done = 0
        for idx, (label, base, items) in enumerate(plan):
            if idx % ctx.nshards != ctx.shard:
                continue
            q = []
            # options that only act together with another one get their enabler, so that the
            # fuzzed value is actually used (events=ping for ping__*, drm=playready for playready__* ...)
            enablers = {}
            for name, _c, _v in items:
                if '__' in name:
                    prefix = name.split('__')[0]
                    if prefix in ('ping', 'scte35'):
                        enablers['events'] = prefix
                    elif prefix in ('playready', 'marlin', 'clearkey'):
                        enablers['drm'] = prefix
                elif name in ('time_value', 'ntp_servers', 'drift'):
                    enablers['time'] = 'ntp' if name == 'ntp_servers' else 'xsd'
                elif name in ('frames',):
                    enablers['vcorrupt'] = '00:00:20Z'
                elif name in ('failures',):
                    enablers['verr'] = '404=11250'
            for k, v in enablers.items():
                if k not in [n for n, _, _ in items]:
                    q.append(f'{k}={v}')
            for name, vcls, val in items:
                if name in injection and val.startswith(('5', '404=')) and False:
                    continue
                q.append(f'{name}={val}' if '%' in val else f'{name}=' + __import__('urllib.parse', fromlist=['quote']).quote(val, safe='=,:-[]{}'))
                covered.add(name)
            url = base + ('&' if '?' in base else '?') + '&'.join(q)
            rp = {'a': {'url': url, 'now': NOW.isoformat()}}
            hdrs = None
            if rng.random() < 0.12:
                hdrs = rng.choice(HEADER_SETS)
                rp['a']['headers'] = hdrs
                res.count('a.requests_with_headers')
            r = self.request('GET', url, 'a', label, rp, headers=hdrs)
            res.count('a.requests')
            status = 'none' if r is None else ('5xx' if r.status_code >= 500 else f'{r.status_code // 100}xx')
            res.case(f'A|{label.split(":")[0]}|{"+".join(n for n, _, _ in items)}|{"+".join(c for _, c, _ in items)}|{status}')
            done += 1
            if done >= limit // ctx.nshards or (done % 50 == 0 and ctx.out_of_time()):
                break
        res.count('a.options_covered', len(covered))
        self.part_a_paths()

    # ------------------------------------------------------------------ (E)
    def legal_values(self) -> dict[str, list[str]]:
        """cgi name -> texts that are legal for that option: its listed choices plus values of its declared type"""
        from dashlive.server.options.repository import OptionsRepository
        out: dict[str, list[str]] = {}
        for o in OptionsRepository.get_dash_options():
            name, t = o.cgi_name, (o.cgi_type or '')
            if name in ('mode', 'verr', 'aerr', 'terr', 'merr', 'failures', 'update'):
                continue            # the path / deliberate failures (part C)
            vals = []
            for ch in (o.cgi_choices or ()):
                v = ch[1] if isinstance(ch, tuple) else ch
                if v is not None:
                    vals.append(str(v))
            if name in ('dashjs', 'shaka'):
                vals += ['4.5.0', '3.2.2', '4.7.3']                       # any released version
            elif name == 'drm':
                vals += ['playready-pro', 'all-moov', 'clearkey-cenc,marlin', 'playready,clearkey', 'all-cenc-pro']
            elif name == 'start':
                vals += [START, '2024-06-06T11:00:00+01:00', '2024-06-05T23:59:59.5Z']
            elif name.endswith('la_url'):
                vals += ['https://lic.example.test/la?a=1&b=2', 'https://lic.example.test/{default_kid}']
            elif name == 'vcorrupt':
                vals += ['12:30:00Z', '5', '11250,11251']
            elif name in ('main_audio', 'ad_audio', 'main_text'):
                vals += ['bbb_a1', 'bbb_a2', 'mta_a2', 'bbb_t1', 'nosuch']
            elif name == 'tlang':
                vals += ['en', 'und']
            elif name == 'time_value':
                vals += ['abc']
            elif name in ('events',):
                vals += ['ping,scte35', 'scte35,ping']
            elif name.endswith('__inband'):
                vals += ['0', '1']
            elif name.endswith('__value'):
                vals += ['7', 'abc']
            elif '<int>' in t or '<number>' in t or '<seconds>' in t or name in ('leeway', 'frames'):
                vals += ['0', '1', '2', '7', '30', '100', '1000']
            out[name] = sorted(set(vals))
        return {k: v for k, v in out.items() if v}

    def part_e(self) -> None:
        """Legal requests only: options with listed or well-typed values, in combinations, on stored streams
        whose layout differs from the fixtures; every URL of the answers is followed once."""
        from dlv.checks.c05 import ALL_TEMPLATES
        from dlv.livewalk import LiveWalk
        from dlv.oracles import mpd as M
        from urllib.parse import quote
        ctx, res, rng = self.ctx, self.res, self.ctx.rng
        legal = self.legal_values()
        names = sorted(legal)
        streams = ['bbb', 'tears'] + self.layout_streams
        n = ctx.scale(400, 40000)
        for i in range(n):
            stream = rng.choice(streams)
            manifest, modes = rng.choice(ALL_TEMPLATES)
            mode = rng.choice(modes)
            picks = rng.sample(names, rng.choice([1, 2, 2, 3, 4, 5]))
            q = {}
            for name in picks:
                q[name] = rng.choice(legal[name])
                if '__' in name:
                    prefix = name.split('__')[0]
                    if prefix in ('ping', 'scte35'):
                        q.setdefault('events', prefix)
                    else:
                        q.setdefault('drm', rng.choice([prefix, 'all']))
                if name in ('dashjs', 'shaka'):
                    q.setdefault('player', 'dashjs' if name == 'dashjs' else 'shaka')
            qs_ = '&'.join(f'{k}={quote(v, safe="=,:-")}' for k, v in sorted(q.items()))
            page = rng.random() < 0.2 or bool({'player', 'dashjs', 'shaka'} & set(q))
            if page:
                url = f'/play/{mode}/{stream}/{manifest}/index.html?{qs_}'
            else:
                url = f'/dash/{mode}/{stream}/{manifest}?{qs_}'
            rp = {'a': {'url': url, 'now': NOW.isoformat()}}
            hdrs = None
            if rng.random() < 0.25:
                hdrs = rng.choice(HEADER_SETS)
                rp['a']['headers'] = hdrs
                res.count('e.requests_with_headers')
            r = self.request('GET', url, 'e', f'legal combination on {stream}', rp, headers=hdrs)
            res.count('e.requests')
            res.evaluations += 1
            res.case(f'E|{stream}|{"page" if page else manifest}|{mode}|{"+".join(sorted(q))}|{getattr(r, "status_code", None)}')
            if r is None or page or r.status_code != 200:
                continue
            try:
                doc = M.parse_mpd(r.data, 'http://localhost' + url)
            except Exception:
                continue
            seen = set()
            for period, rep in doc.all_reps():
                if id(rep.adaptation_element) in seen:
                    continue
                seen.add(id(rep.adaptation_element))
                urls = []
                try:
                    if mode == 'odvod':
                        urls.append((rep.base_url, {'Range': 'bytes=0-199'}))
                    else:
                        if rep.init_url():
                            urls.append((rep.init_url(), {}))
                        if rep.timeline:
                            urls.append((rep.media_url(number=rep.start_number, time=rep.timeline[-1].t), {}))
                        elif doc.type == 'dynamic':
                            adds = M.live_addressable(doc, period, rep, self.env.clock.instant)
                            if adds:
                                urls.append((adds[-1].url, {}))
                        else:
                            urls.append((rep.media_url(number=rep.start_number), {}))
                except M.MpdError:
                    continue
                for u, hdrs in urls:
                    res.count('e.followed_urls')
                    self.request('GET', LiveWalk._path(u), 'e', f'URL of the manifest {url}',
                                 {'a': {'url': LiveWalk._path(u), 'now': NOW.isoformat()}}, headers=hdrs)
            if i % 20 == 0 and ctx.out_of_time():
                break

    def part_a_paths(self) -> None:
        """(A2) boundary and type-confused values in the path parameters of every media, manifest and patch route"""
        from urllib.parse import quote
        ctx, res, rng = self.ctx, self.res, self.ctx.rng
        ppk = self.mps['periods'][0]['pk']
        templates = [
            ('path:media:number', '/dash/{mode}/bbb/bbb_v7/{v}.m4v', ('live', 'vod')),
            ('path:media:time', '/dash/{mode}/bbb/bbb_a1/time/{v}.m4a', ('live', 'vod')),
            ('path:media:enc', '/dash/{mode}/bbb/bbb_v7_enc/{v}.m4v?drm=all', ('live', 'vod')),
            ('path:media:rep', '/dash/{mode}/bbb/{v}/3.m4v', ('live', 'vod')),
            ('path:media:ext', '/dash/{mode}/bbb/bbb_v7/3.{v}', ('live', 'vod')),
            ('path:media:stream', '/dash/{mode}/{v}/bbb_v7/3.m4v', ('live', 'vod')),
            ('path:init', '/dash/{mode}/bbb/{v}/init.m4v', ('live', 'vod')),
            ('path:odvod', '/dash/odvod/bbb/{v}.m4a', ('odvod',)),
            ('path:manifest', '/dash/{mode}/bbb/{v}', ('live', 'vod', 'odvod')),
            ('path:manifest:mode', '/dash/{v}/bbb/hand_made.mpd', ('x',)),
            ('path:patch:time', '/patch/bbb/hand_made/{v}', ('x',)),
            ('path:patch:time:q', '/patch/bbb/hand_made/{v}?patch=1', ('x',)),
            ('path:patch:name', '/patch/bbb/{v}/1717675200', ('x',)),
            ('path:patch:name.mpd', '/patch/bbb/hand_made.mpd/{v}?patch=1', ('x',)),
            ('path:mps:number', '/mps/{mode}/c16mps/%d/bbb_v7/{v}.m4v' % ppk, ('live', 'vod')),
            ('path:mps:time', '/mps/{mode}/c16mps/%d/bbb_a1/time/{v}.m4a' % ppk, ('live', 'vod')),
            ('path:mps:period', '/mps/{mode}/c16mps/{v}/bbb_v7/2.m4v', ('live', 'vod')),
            ('path:mps:name', '/mps/{mode}/{v}/hand_made.mpd', ('live', 'vod')),
            ('path:mps:manifest', '/mps/{mode}/c16mps/{v}', ('live', 'vod')),
            ('path:time', '/time/{v}', ('x',)),
            ('path:play', '/play/{mode}/bbb/{v}/index.html', ('live', 'vod')),
            ('path:stream', '/stream/{v}?ajax=1', ('x',)),
            ('path:libs', '/libs/{v}', ('x',)),
            ('path:play:stream', '/play/{mode}/{v}/hand_made.mpd/index.html', ('live', 'vod', 'odvod')),
            ('path:play:mps', '/play/mps/{mode}/{v}/hand_made.mpd/index.html', ('live', 'vod')),
            ('path:manifest:stream', '/dash/{mode}/{v}/hand_made.mpd?drm=all', ('live', 'vod')),
            ('path:legacy', '/dash/{v}', ('x',)),
            ('path:legacy:stream', '/dash/bbb/{v}', ('x',)),
            ('path:key', '/key/{v}', ('x',)),
        ]
        plan = [(label, tpl, mode, v) for label, tpl, modes in templates for mode in modes for v in PATH_VALUES]
        rng.shuffle(plan)
        for idx, (label, tpl, mode, v) in enumerate(plan):
            if idx % ctx.nshards != ctx.shard:
                continue
            url = tpl.replace('{mode}', mode).replace('{v}', v if '%' in v else quote(v, safe='+'))
            if mode == 'live' and 'start=' not in url and 'media' in label:
                url += ('&' if '?' in url else '?') + f'start={START}'
            rp = {'a': {'url': url, 'now': NOW.isoformat()}}
            r = self.request('GET', url, 'a', label, rp)
            res.count('a.path_requests')
            status = 'none' if r is None else ('5xx' if r.status_code >= 500 else f'{r.status_code // 100}xx')
            res.case(f'A2|{label}|{PATH_VALUES.index(v)}|{status}')

    # ------------------------------------------------------------------ (B)
    def mutations(self, data: bytes, rng, max_n: int) -> list[tuple[str, bytes]]:
        from dlv.oracles import isobmff as ib
        out: list[tuple[str, bytes]] = []
        try:
            root = ib.parse_file(data)
            boxes = list(root.walk())[1:]
        except Exception:
            boxes = []
        for b in boxes:
            for d in (-1, 0, 1):
                cut = b.end + d
                if 0 < cut < len(data):
                    out.append((f'truncate@{b.name()}', data[:cut]))
            for val, cls in ((0, 'size0'), (1, 'size1'), (7, 'size7'), (0xFFFFFFFF, 'sizemax'), (b.size + 1000, 'sizebeyond'),
                             (b.size - 1, 'sizeminus1'), (8, 'size8')):
                m = bytearray(data)
                m[b.start:b.start + 4] = struct.pack('>I', val & 0xFFFFFFFF)
                out.append((f'{cls}@{b.name()}', bytes(m)))
            for big in (2**33, 2**40, 2**63, b.size + 8):
                # the 64-bit size form: size field 1, the real size in the following eight bytes
                m = bytearray(data)
                m[b.start:b.start + 4] = struct.pack('>I', 1)
                m[b.start + 8:b.start + 8] = struct.pack('>Q', big)
                out.append((f'largesize@{b.name()}', bytes(m)))
            m = bytearray(data)
            m[b.start + 4:b.start + 8] = rng.choice([b'zzzz', b'moov', b'trun', b'\0\0\0\0', b'uuid', b'senc', b'avcC'])
            out.append((f'type@{b.name()}', bytes(m)))
            if b.type in (b'pssh', b'trun', b'senc', b'saiz', b'saio', b'sidx', b'stsd', b'tenc', b'trex', b'mehd') and not b.children:
                # any 32-bit field of a small leaf box can be a count: make each huge in turn
                for off in range(b.body + 4, min(b.end - 3, b.body + 44), 4):
                    m = bytearray(data)
                    m[off:off + 4] = b'\x7f\xff\xff\xff'
                    out.append((f'field-huge@{b.name()}+{off - b.body}', bytes(m)))
            if b.type in (b'trun', b'senc', b'saiz', b'stsd', b'saio', b'pssh', b'sidx', b'emsg', b'tfhd'):
                m = bytearray(data)
                off = b.body + 4
                if off + 4 <= len(m):
                    m[off:off + 4] = b'\xff\xff\xff\xff'
                    out.append((f'count-max@{b.name()}', bytes(m)))
                m = bytearray(data)
                if b.body + 4 <= len(m):
                    m[b.body:b.body + 4] = rng.randbytes(4)      # version/flags
                    out.append((f'flags@{b.name()}', bytes(m)))
        for _ in range(60):
            m = bytearray(data)
            for _ in range(rng.randrange(1, 4)):
                i = rng.randrange(min(len(m), 1200))
                m[i] ^= 1 << rng.randrange(8)
            out.append(('bitflip', bytes(m)))
        rng.shuffle(out)
        return out[:max_n]

    def part_b(self) -> None:
        from dashlive.mpeg import mp4
        from dashlive.utils.buffered_reader import BufferedReader
        from dlv import guard
        from dlv.appenv import FIXTURES
        from dlv.oracles import isobmff as ib
        from dlv.session import UserSession
        from dlv.mgmt import Harvest, execute, op_upload, op_index
        ctx, res, rng = self.ctx, self.res, self.ctx.rng
        corpus = []
        for name in ('bbb/bbb_t1.mp4', 'bbb/bbb_v7_enc.mp4', 'bbb/bbb_a1_enc.mp4', 'bbb/bbb_a2.mp4', 'tears/tears_a1.mp4'):
            buf = (FIXTURES / name).read_bytes()
            sf = ib.index_file(buf)
            corpus.append((name + ':init', buf[:sf.init_end]))
            s = sf.segments[0]
            corpus.append((name + ':frag', buf[s.moof_start:s.moof_start + (s.mdat_payload[0] - s.moof_start) + 64]))
        for name in ('emsg.mp4', 'seg1.mp4', 'moov.mp4', 'enc-moov.mp4', 'hevc-moov.mp4', 'eac3-moov.mp4', 'webvtt.mp4',
                     'ebuttd.mp4', 'senc.mp4'):
            p = FIXTURES / name
            if p.exists():
                corpus.append((name, p.read_bytes()[:20000]))
        from dlv.oracles import boxwriter as bw
        corpus.append(('synthetic:pssh-v1', bw.full(b'pssh', 1, 0, bytes.fromhex('1077efecc0b24d02ace33c1e52e2fb4b') +
                                                    struct.pack('>I', 2) + bytes(range(32)) + struct.pack('>I', 4) + b'data')))
        whole = (FIXTURES / 'bbb' / 'bbb_t1.mp4').read_bytes()
        per = ctx.scale(40, 2500)
        for ci, (cname, data) in enumerate(corpus):
            if ci % ctx.nshards != ctx.shard % len(corpus) and ctx.tier == 'quick' and ctx.nshards >= len(corpus):
                if (ci + ctx.seed) % ctx.nshards != ctx.shard:
                    continue
            for op, mutated in self.mutations(data, rng, per):
                for lazy in (False, True):
                    self.judge_parse(cname, op, lazy, mutated)
                if ctx.out_of_time():
                    break
        # ---- HTTP: upload -> index -> serve
        media = UserSession(self.env, *self.env.MEDIA)
        h = Harvest(media, self.spk)
        sid = self.env.add_stream(f'fz{ctx.shard}', 'Fuzz uploads', {})
        h2 = Harvest(media, sid)
        n_up = ctx.scale(6, 300)
        muts = self.mutations(whole, rng, n_up)
        for i, (op, mutated) in enumerate(muts):
            name = f'fz{ctx.shard}x{i}'
            rp = {'b': {'upload': op, 'hex': mutated.hex()}}
            res.count('b.http_uploads')
            r = self._guarded(lambda: execute(media, h2, op_upload(sid, f'{name}.mp4', mutated)), 'upload', rp)
            if r is None:
                continue
            js = r.get_json(silent=True) or {}
            mfid = js.get('pk')
            res.case(f'B|upload|{op.split("@")[0]}|{r.status_code}')
            if mfid is None:
                continue
            r = self._guarded(lambda: execute(media, h2, op_index(mfid)), 'index', rp)
            for url in (f'/dash/vod/fz{ctx.shard}/hand_made.mpd', f'/dash/live/fz{ctx.shard}/manifest_e.mpd',
                        f'/stream/{sid}?ajax=1', f'/stream/{sid}', f'/stream/{sid}/{mfid}/segments?ajax=1',
                        f'/stream/{sid}/{mfid}', f'/dash/vod/fz{ctx.shard}/{name}/1.mp4', f'/dash/vod/fz{ctx.shard}/{name}/init.mp4',
                        f'/stream/{sid}/{mfid}/segment/1'):
                self.request('GET', url, 'b', f'after upload {op}', rp, client=media.client)
            if ctx.out_of_time():
                break

        # ---- a well-formed file under hostile file names
        for fname in ('???', '..', '.mp4', 'a/b.mp4', '../../x.mp4', ' .mp4', 'x' * 300 + '.mp4', 'é中.mp4', 'con.mp4',
                      'a b.mp4', 'a%00b.mp4', 'UPPER.MP4', 'noext', 'two.dots.mp4', '-.mp4', ''):
            if (hash(fname) + ctx.shard) % 4 and ctx.tier == 'quick':
                continue
            rp = {'b': {'upload': f'file-name:{fname!r}'}}
            res.count('b.hostile_name_uploads')
            r = self._guarded(lambda: execute(media, h2, op_upload(sid, fname, whole)), 'upload', rp)
            if r is None:
                continue
            res.case(f'B|upload-name|{fname[:12]!r}|{r.status_code}')
            mfid = (r.get_json(silent=True) or {}).get('pk')
            if mfid is not None:
                self._guarded(lambda: execute(media, h2, op_index(mfid)), 'index', rp)
                for url in (f'/stream/{sid}', f'/dash/vod/fz{ctx.shard}/hand_made.mpd', f'/stream/{sid}/{mfid}'):
                    self.request('GET', url, 'b', f'after upload named {fname!r}', rp, client=media.client)
        # ---- well-formed files whose structure differs from every fixture: upload -> index -> serve
        from dlv import synth
        variants = sorted(synth.legal_variants().items())
        for k in range(ctx.scale(1, len(variants))):
            vname, data = variants[(ctx.shard + ctx.seed + k) % len(variants)]
            name = f'lv{ctx.shard}_{vname}'
            rp = {'b': {'upload': f'legal-variant:{vname}'}}
            res.count('b.legal_variant_uploads')
            r = self._guarded(lambda: execute(media, h2, op_upload(sid, f'{name}.mp4', data)), 'upload', rp)
            if r is None:
                continue
            mfid = (r.get_json(silent=True) or {}).get('pk')
            res.case(f'B|upload|legal-variant:{vname}|{r.status_code}')
            if mfid is None:
                res.violation(f'well-formed-upload-refused-{vname}', f'upload of {vname} -> {r.status_code} {r.data[:120]!r}', rp)
                continue
            r = self._guarded(lambda: execute(media, h2, op_index(mfid)), 'index', rp)
            if r is not None and r.status_code == 200:
                js = r.get_json(silent=True) or {}
                if js.get('errors'):
                    res.violation(f'well-formed-file-not-indexed-{vname}', f'index of {vname}: {js["errors"]}', rp)
            for url in (f'/stream/{sid}?ajax=1', f'/stream/{sid}', f'/stream/{sid}/{mfid}/segments?ajax=1',
                        f'/stream/{sid}/{mfid}', f'/dash/vod/fz{ctx.shard}/{name}/1.mp4', f'/dash/vod/fz{ctx.shard}/{name}/init.mp4',
                        f'/stream/{sid}/{mfid}/segment/1', f'/dash/vod/fz{ctx.shard}/hand_made.mpd?drm=all'):
                self.request('GET', url, 'b', f'after upload of legal variant {vname}', rp, client=media.client)
            # editing a media file stores its new content under a generated name (<name>_01.mp4);
            # a later upload may carry exactly that file name
            from dlv.mgmt import op_edit_media
            r = self._guarded(lambda: execute(media, h2, op_edit_media(sid, mfid, 9, 'eng')), 'edit-media', rp)
            if r is not None and r.status_code < 400:
                res.count('b.upload_after_edit')
                self._guarded(lambda: execute(media, h2, op_upload(sid, f'{name}_01.mp4', data)), 'upload-of-generated-name', rp)
                self.request('GET', f'/dash/vod/fz{ctx.shard}/{name}/1.mp4', 'b', f'after upload of {name}_01.mp4', rp,
                             client=media.client)
            if ctx.out_of_time():
                break

    def judge_parse(self, cname: str, op: str, lazy: bool, mutated: bytes) -> None:
        from dashlive.mpeg import mp4
        from dashlive.utils.buffered_reader import BufferedReader
        from dlv import guard
        res = self.res
        res.count('b.parser_inputs')
        rp = {'b': {'corpus': cname, 'operator': op, 'lazy': lazy, 'hex': mutated.hex() if len(mutated) < 6000 else None}}

        def parse():
            # encrypted corpora are parsed as the server parses them: with the IV size of the track
            opts = mp4.Options(mode='r', lazy_load=lazy, iv_size=8 if '_enc' in cname or 'senc' in cname else None)
            atoms = mp4.Mp4Atom.load(BufferedReader(None, data=mutated), options=opts, use_wrapper=True)
            if lazy:
                atoms.toJSON(pure=True)       # touch every lazily loaded box
            return atoms
        tracemalloc.start()
        try:
            outcome, value = guard.run_with_wall(lambda: self._catch(parse), 15.0)
            _cur, peak = tracemalloc.get_traced_memory()
        finally:
            tracemalloc.stop()
        cls = 'returned'
        if outcome == 'timeout':
            r2 = guard.run_with_wall(lambda: guard.run_with_line_budget(lambda: self._catch(parse), 40_000_000), 300.0)
            if r2[0] == 'ok' and r2[1][0] == 'exceeded':
                res.violation('parser-does-not-terminate', f'{cname} {op} lazy={lazy}: > 40,000,000 events\n{r2[1][1][-700:]}', rp)
                cls = 'hang'
            else:
                res.count('b.slow_but_terminating')     # bounded: finished within the deterministic budget
        elif isinstance(value, BaseException) and not isinstance(value, Exception):
            res.violation(f'parser-raises-{type(value).__name__}', f'{cname} {op} lazy={lazy}: {value!r}', rp)
            cls = 'baseexception'
        elif isinstance(value, Exception):
            cls = 'raised-' + type(value).__name__
        if peak > 64 * len(mutated) + 64 * 2**20:
            res.violation('parser-unbounded-allocation',
                          f'{cname} {op} lazy={lazy}: {peak} bytes traced for a {len(mutated)} byte input', rp)
        res.case(f'B|parser|{cname}|{op.split("@")[0]}|{"lazy" if lazy else "eager"}|{cls}')
        self.sample('b-parser', {'part': 'b', 'corpus': cname, 'operator': op, 'lazy': lazy, 'bytes': len(mutated),
                                 'outcome': cls})

    @staticmethod
    def _catch(fn):
        try:
            return fn()
        except Exception as err:      # reported parse error
            return err
        except BaseException as err:
            from dlv.guard import WallTimeout, LineBudgetExceeded
            if isinstance(err, (WallTimeout, LineBudgetExceeded)):
                raise
            return err

    def _guarded(self, fn, label: str, rp: dict):
        from dlv import guard
        res = self.res
        outcome, value = guard.run_with_wall(fn, 10.0)
        if outcome == 'timeout':
            res.violation(f'{label}-does-not-return', f'{label}: wall watchdog\n{value[-600:]}', rp)
            return None
        if value.status_code >= 500:
            info = self.env.rec.last_exception
            res.violation(f'5xx-{exc_site(info)}', f'{label} -> {value.status_code}: {(info or {}).get("repr", "")[:200]}', rp,
                          traceback=(info or {}).get('traceback', '')[-1500:])
        return value

    # ------------------------------------------------------------------ (C)
    def part_c(self) -> None:
        ctx, res, rng, env = self.ctx, self.res, self.ctx.rng, self.env
        n = ctx.scale(40, 3000)
        base_n = 11244        # numbers safely inside the window at NOW (last available: 11250)
        for i in range(n):
            client = env.client()                      # one client session (cookie jar) per sequence
            kind = rng.choice(['video', 'audio', 'text', 'manifest'])
            code = rng.choice([503, 504, 404, 410])
            failures = rng.choice([None, 0, 1, 3])
            rp = {'c': {'kind': kind, 'code': code, 'failures': failures}}
            res.count('c.sequences')
            if kind == 'manifest':
                upd = rng.randrange(0, 4)
                spec = f'merr={code}%3D{upd}'
                fq = '' if failures is None else f'&failures={failures}'
                seq = []
                for step in range(8):
                    u = rng.choice([upd, upd, (upd + 1) % 4, upd + 2])
                    url = f'/dash/live/bbb/hand_made.mpd?start={START}&{spec}{fq}&update={u}'
                    r = self.request('GET', url, 'c', 'manifest injection', rp, client=client) \
                        if code < 500 else self._raw(client, url)
                    seq.append((u == upd, r.status_code if r is not None else None, url))
                self.judge(seq, code, failures, rp, 'manifest')
                continue
            rep, ext, opt, per = {'video': ('bbb_v7', 'm4v', 'verr', 960), 'audio': ('bbb_a1', 'm4a', 'aerr', 176128),
                                  'text': ('bbb_t1', 'mp4', 'terr', 2000)}[kind]
            num = base_n if kind != 'text' else 4494      # last available text number at NOW: 4499
            target = num + rng.randrange(0, 3)
            others = [target + 1, target - 1]
            path = f'/dash/live/bbb/{rep}/{{n}}.{ext}?start={START}'
            prefix_pair = kind != 'text' and rng.random() < 0.3
            if prefix_pair:
                code, failures = rng.choice([503, 504]), rng.choice([1, 2, 3])
                rp['c'].update({'code': code, 'failures': failures, 'prefix_pair': True})
                # two positions of which one number is, as text, the beginning of the other (1 and 10), in a
                # static presentation where both exist
                target, others = rng.choice([(1, [10, 5]), (10, [1, 5])])
                path = f'/dash/vod/bbb/{rep}/{{n}}.{ext}?x=1'
            spec = f'{opt}={code}%3D{target}'
            if prefix_pair or rng.random() < 0.4:
                # a second position under the same code (the counter must not leak between positions)
                spec += f',{code}%3D{others[0]}'
                rp['c']['two_positions'] = True
            if rng.random() < 0.3:
                # one more entry under the same code whose position is of another kind (a time of day or a date-time):
                # it equals no segment number, so the sequence is judged as without it
                extra = f'{code}%3D' + rng.choice(['00:00:20Z', '2024-01-01T00:00:20Z', '23:59:59Z'])
                spec = rng.choice([f'{spec},{extra}', f'{opt}={extra},' + spec[len(opt) + 1:]])
                rp['c']['mixed_position_kinds'] = True
                res.count('c.mixed_position_kinds')
            fq = '' if failures is None else f'&failures={failures}'
            if failures and rng.random() < 0.5:
                # prelude in the same client session: the same fault requested WITHOUT failures= fires every
                # time, and must not use up the count of the later requests that carry failures=N
                rp['c']['prelude'] = k_pre = rng.randrange(1, 5)
                for _ in range(k_pre):
                    url = path.format(n=target) + f'&{spec}'
                    r = self._raw(client, url)
                    res.count('c.prelude_requests')
                    if r.status_code != code:
                        res.violation('injected-media-error-without-failure-count-not-fired',
                                      f'{url} -> {r.status_code}, expected {code} on every request', rp)
            seq = []
            script = []
            if prefix_pair and failures and code >= 500:
                # the other position fails once, this one runs through its whole failure cycle, then the other
                # one must still fail exactly `failures` times in all
                script = [others[0]] + [target] * (failures + 1) + [others[0]] * (failures + 1)
                res.count('c.prefix_pair_scripts')
            for step in range(max(9, len(script))):
                nn = rng.choice([target, target, target, others[1]] + ([others[0]] if rp['c'].get('two_positions') else []))
                if step < len(script):
                    nn = script[step]
                url = path.format(n=nn) + f'&{spec}{fq}'
                r = self._raw(client, url)
                addressed = nn == target or (rp['c'].get('two_positions') and nn == others[0])
                seq.append((addressed, r.status_code, url, nn))
            self.judge_media(seq, code, failures, rp, kind)
            self.sample('c', {'part': 'c', 'spec': rp['c'], 'sequence': [(a, st) for a, st, *_ in seq]})
            res.case(f'C|{kind}|{code}|f{failures}|{"two" if rp["c"].get("two_positions") else "one"}')
            if i % 20 == 0 and ctx.out_of_time():
                break

    def _raw(self, client, url):
        return self.env.get(url, client=client)

    def judge(self, seq, code, failures, rp, label) -> None:
        """manifest injection: error exactly when addressed (update count matches)"""
        res = self.res
        hits = 0
        for addressed, status, url in seq:
            if status is None:
                continue
            if status == code:
                res.count('c.synthetic_seen')
            if not addressed and status != 200:
                res.violation(f'injected-{label}-error-fires-for-unaddressed-request',
                              f'{url} -> {status} (sequence {[(a, s) for a, s, _ in seq]})', rp)
                return
            if addressed:
                hits += 1
                expect = self.expect(code, failures, hits)
                if expect == 'error' and status != code:
                    res.violation(f'injected-{label}-error-does-not-fire',
                                  f'{url} -> {status}, expected {code} on addressed request #{hits} '
                                  f'(failures={failures}; sequence {[(a, s) for a, s, _ in seq]})', rp)
                    return
                if expect == 'ok' and status != 200:
                    res.violation(f'injected-{label}-error-fires-too-often',
                                  f'{url} -> {status} on addressed request #{hits}, expected success after {failures} failures', rp)
                    return
                if expect == 'ok':
                    return      # judged up to the first success

    @staticmethod
    def expect(code, failures, hit_index):
        if code < 500 or failures is None:
            return 'error'
        if hit_index <= failures:
            return 'error'
        return 'ok'

    def judge_media(self, seq, code, failures, rp, kind) -> None:
        res = self.res
        per_pos: dict[int, int] = {}
        done_pos: set[int] = set()
        for addressed, status, url, nn in seq:
            if status == code:
                res.count('c.synthetic_seen')
            if not addressed:
                if status != 200:
                    res.violation('injected-media-error-fires-for-unaddressed-request',
                                  f'{url} -> {status} (sequence {[(a, s, n) for a, s, _, n in seq]})', rp)
                    return
                continue
            if nn in done_pos:
                continue
            per_pos[nn] = per_pos.get(nn, 0) + 1
            expect = self.expect(code, failures, per_pos[nn])
            if expect == 'error' and status != code:
                two = '-two-positions' if rp['c'].get('two_positions') else ''
                res.violation(f'injected-media-error-does-not-fire{two}',
                              f'{url} -> {status}, expected {code} on request #{per_pos[nn]} for segment {nn} '
                              f'(failures={failures}; sequence {[(a, s, n) for a, s, _, n in seq]})', rp)
                return
            if expect == 'ok':
                if status != 200:
                    two = '-two-positions' if rp['c'].get('two_positions') else ''
                    res.violation(f'injected-media-error-fires-too-often{two}',
                                  f'{url} -> {status} on request #{per_pos[nn]} for segment {nn}, expected success after '
                                  f'{failures} failures (sequence {[(a, s, n) for a, s, _, n in seq]})', rp)
                    return
                done_pos.add(nn)


# ------------------------------------------------------------------ (D) management operations
JSON_VALUES = [None, '', 0, -1, 1.5, True, [], {}, [1], {'a': 1}, 'x' * 2000, '99999999999999999999', 2**63, 'é中', '%00',
               'PT-5S', 'P1Y', '2024-13-45T99:99:99Z', '../..', 'a/b', ' ']


def mutate_fields(rng, fields):
    """-> (new fields, description): one value anywhere in the (nested) body replaced, removed or duplicated"""
    import copy
    out = copy.deepcopy(fields)
    paths = []

    def walk(node, path):
        if isinstance(node, dict):
            for k, v in node.items():
                paths.append(path + [k])
                walk(v, path + [k])
        elif isinstance(node, list):
            for i, v in enumerate(node):
                paths.append(path + [i])
                walk(v, path + [i])
    walk(out, [])
    if not paths:
        return out, 'no-fields'
    path = rng.choice(paths)
    node = out
    for k in path[:-1]:
        node = node[k]
    how = rng.choice(['replace', 'replace', 'replace', 'remove'])
    if how == 'remove':
        del node[path[-1]]
        return out, f'remove {path}'
    val = rng.choice(JSON_VALUES)
    node[path[-1]] = val
    return out, f'{path} := {val!r:.40}'


def replay_d(ctx: ShardCtx, res: ShardResult, d: dict) -> None:
    from dlv.checks import c15
    from dlv.mgmt import execute
    w = c15.World(ctx)
    try:
        w.env.clock.set(NOW)
        op = dict(d['op'])
        if op.get('token'):
            op['token'] = tuple(op['token'])
        r = execute(w.sessions[d['role']], w.harvest[d['role']], op)
        res.evaluations += 1
        res.count('d.requests')
        if r.status_code >= 500:
            info = w.env.rec.last_exception or {}
            res.violation(f'5xx-{info.get("type", "unknown")}-in-{exc_site(info)}-management-{op["name"]}',
                          f'{op["method"]} {op["url"]} as {d["role"]} -> {r.status_code}: {info.get("repr", "")[:200]}', {'d': d})
    finally:
        w.close()


def part_d(ctx: ShardCtx, res: ShardResult) -> None:
    """every management operation of the catalogue, sent by an authorised user with one field of its
    body type-confused, removed or out of range: any 5xx / unhandled exception is a violation"""
    from dlv.checks import c15
    from dlv.mgmt import execute
    rng = ctx.rng
    w = c15.World(ctx)
    try:
        w.env.clock.set(NOW)
        n = ctx.scale(400, 20000)
        dirty = 0
        for i in range(n):
            ops = c15.catalogue(w, rng)
            op = dict(rng.choice(ops))
            if op.get('fields'):
                kind = op.get('kind')
                fields, what = mutate_fields(rng, op['fields'])
                if kind != 'json':
                    # form fields are strings
                    fields = {k: ('' if v is None else v if isinstance(v, (str, list)) else str(v)) for k, v in fields.items()
                              if not isinstance(v, dict)}
                op['fields'] = fields
            else:
                what = 'unchanged'
                if rng.random() < 0.7:
                    continue
            role = 'admin' if op['needs'].startswith('admin') or rng.random() < 0.3 else 'media'
            rp = {'d': {'op': {k: v for k, v in op.items() if k != 'file'}, 'what': what, 'role': role}}
            try:
                r = execute(w.sessions[role], w.harvest[role], op)
            except Exception as err:
                res.count('d.client_refused')
                continue
            res.count('d.requests')
            res.evaluations += 1
            status = r.status_code
            res.case(f'D|{op["name"]}|{what.split(" := ")[0][:40]}|{status // 100}xx')
            if len([x for x in res.samples if x.get('part') == 'd']) < 2:
                res.samples.append({'part': 'd', 'operation': op['name'], 'request': f'{op["method"]} {op["url"]}',
                                    'mutation': what, 'role': role, 'status': status})
            if status >= 500:
                info = w.env.rec.last_exception or {}
                res.violation(f'5xx-{info.get("type", "unknown")}-in-{exc_site(info)}-management-{op["name"]}',
                              f'{op["method"]} {op["url"]} ({what}) as {role} -> {status}: {info.get("repr", "")[:200]}', rp,
                              traceback=info.get('traceback'))
            dirty += 1
            if dirty >= 25:
                w.reset()
                dirty = 0
            if i % 20 == 0 and ctx.out_of_time():
                break
        # whole bodies of another JSON type, and the public licence endpoint (no login, no token)
        import base64
        kid = base64.urlsafe_b64encode(bytes.fromhex(w.kids[0])).rstrip(b'=').decode() if w.kids else 'AAAA'
        bodies = [[1, 2], 'abc', 5, None, True, {}, {'kids': [5]}, {'kids': 'x'}, {'kids': [None]}, {'kids': {}},
                  {'kids': [kid], 'type': 5}, {'kids': [kid, kid]}, {'kids': ['!!!']}, {'kids': [kid * 40]}, {'type': 'temporary'}]
        targets = [('clearkey', 'POST', '/clearkey', 'anon', False)]
        for op in c15.catalogue(w, rng):
            if op.get('kind') == 'json':
                targets.append((op['name'], op['method'], op['url'], 'admin', bool(op.get('jwt'))))
        plan = [(t, b) for t in targets for b in bodies]
        rng.shuffle(plan)
        for k, ((name, method, url, role, jwt), body) in enumerate(plan):
            if k % ctx.nshards != ctx.shard and ctx.tier == 'quick':
                continue
            sess = w.sessions[role]
            hdrs = dict(w.harvest[role].bearer()) if jwt else {}
            try:
                r = sess.request(method, url, json=body, headers=hdrs)
            except Exception:
                res.count('d.client_refused')
                continue
            res.count('d.requests')
            res.count('d.whole_body_requests')
            res.evaluations += 1
            res.case(f'D|{name}|whole-body:{type(body).__name__}|{r.status_code // 100}xx')
            if r.status_code >= 500:
                info = w.env.rec.last_exception or {}
                res.violation(f'5xx-{info.get("type", "unknown")}-in-{exc_site(info)}-body-{name}',
                              f'{method} {url} with JSON body {body!r} as {role} -> {r.status_code}: {info.get("repr", "")[:200]}',
                              {'d': {'whole_body': body, 'method': method, 'url': url, 'role': role}},
                              traceback=info.get('traceback'))
    finally:
        w.close()


def run_shard(ctx: ShardCtx) -> ShardResult:
    from dlv.reach import Reach
    res = ShardResult()
    fz = Fuzz(ctx, res)
    try:
        reach = Reach([
            ('dashlive.server.requesthandler.media_requests', 'MediaRequestBase.check_for_synthetic_http_error'),
            ('dashlive.server.requesthandler.manifest_requests', 'ServeManifest.check_for_synthetic_manifest_error'),
            ('dashlive.server.requesthandler.manifest_context', 'ManifestContext.calculate_injected_error_segments'),
            ('dashlive.server.requesthandler.time_source_context', 'TimeSourceContext.__init__'),
            ('dashlive.server.requesthandler.drm_context', 'DrmContext.generate_drm_location_tuples'),
            ('dashlive.server.events.repeating_event_base', 'RepeatingEventBase.create_emsg_boxes'),
            ('dashlive.mpeg.mp4', 'Mp4Atom.load'),
        ])
        total = ctx.budget_s
        if ctx.replay:
            r = ctx.replay['replay']
            if 'a' in r:
                fz.env.clock.set(datetime.datetime.fromisoformat(r['a']['now']))
                fz.request('GET', r['a']['url'], 'a', 'replay', r, headers=r['a'].get('headers'))
                res.evaluations += 1
            elif 'b' in r and r['b'].get('hex') and 'corpus' in r['b']:
                fz.judge_parse(r['b']['corpus'], r['b']['operator'], bool(r['b']['lazy']), bytes.fromhex(r['b']['hex']))
                res.evaluations += 1
            elif 'd' in r:
                replay_d(ctx, res, r['d'])
            else:
                res.notes.append('replay of upload / sequence cases re-runs the recorded steps by hand: see the replay file')
        else:
            ctx.budget_s = total * 0.15
            fz.part_c()
            ctx.budget_s = total * 0.3
            part_d(ctx, res)
            ctx.budget_s = total * 0.55
            fz.part_b()
            ctx.budget_s = total * 0.72
            fz.part_e()
            ctx.budget_s = total
            fz.part_a()
        reach.report(res)
    finally:
        fz.close()
    return res
