"""C07 -- options given to a manifest reach its media requests with the same meaning.

(unit) every registered DashOption: from_string(url-decode(to_string(v))) == v for generated
legal values v.  (integration) a recording wrapper on the real
RequestHandlerBase.calculate_options captures the OptionsContainer each handler resolved; the
init and media URLs are taken from the served manifest *as written*, requested, and the
container captured in the media handler is compared field by field with the one the manifest
request ended up with, restricted to the options whose usage covers that media type; the
query string is parsed independently to show that no option outside that usage is forwarded.
"""
from __future__ import annotations

import datetime
from urllib.parse import parse_qsl, urlsplit

from dlv.core import ShardCtx, ShardResult

PROPERTY = 'C07'
LEVEL = 'exploration'
RULE = ('unit: every option of the registry (discovered at run time) x generated legal values of its type (choices '
        'exhaustively; integers on boundaries; ISO date-times with UTC offsets and microseconds; URLs and free strings '
        'with reserved characters; lists; DRM selection x location subsets; error lists). integration: manifests of all '
        'templates/modes with 1..4 generated options, one init + one media URL per AdaptationSet. distinct = '
        '(layer, option name, value class) resp. (template, mode, media type, option-name set).')
ASSUMPTIONS = [
    'the DRM selection is compared as a mapping system -> set of locations (list order is not meaningful)',
    'URL text -> value uses the same decoding a query-string parser applies (urllib.parse.parse_qsl)',
    'verr/aerr/vcorrupt: number-form positions are compared as values; time-of-day positions are compared with the number of the segment live at that time (elapsed since availabilityStartTime * timescale // nominal segment duration of the first Representation of the AdaptationSet, nominal = mean of all but the last stored segment); positions within 1.5 s of the window edge are not judged',
    'availabilityStartTime/timeShiftBufferDepth are compared with the values the manifest resolved (it writes the resolved values into the URLs)',
    'shims + werkzeug test client as HTTP boundary',
]
REQUIRED_COUNTERS = ['int.time_positions_compared', 'int.defaults_compared', 'unit.roundtrips', 'unit.options', 'int.media_requests', 'int.fields_compared',
                     'int.usage_checked', 'reach.calculate_cgi_parameters', 'reach._generate_parameters_dict',
                     'reach.append_cgi_params', 'reach.convert_options']

UTC = datetime.timezone.utc
RESERVED_STRINGS = ['plain', 'bbb_a1', 'with space', 'a+b', 'a&b=c', 'é中', '100%', 'x%41y', 'q?r#s', 'semi;colon',
                    "it's", 'a/b:c', 'comma-free"quote']


def shards(tier: str) -> int:
    return 16


def option_texts(opt, rng) -> list[tuple[str, str]]:
    """-> [(value class, canonical text)] legal for this option"""
    name = opt.cgi_name
    fs = getattr(opt.from_string, '__name__', '')
    out: list[tuple[str, str]] = []
    if opt.cgi_choices:
        for ch in opt.cgi_choices:
            v = ch[1] if isinstance(ch, tuple) else ch
            if v is not None:
                out.append(('choice', str(v)))
    if name == 'start':
        for _ in range(6):
            dt = datetime.datetime(rng.randrange(1971, 2035), rng.randrange(1, 13), rng.randrange(1, 29),
                                   rng.randrange(24), rng.randrange(60), rng.randrange(60),
                                   rng.choice([0, 0, 500000, 123456, 1]))
            off = rng.choice([None, 0, 60, -300, 330, 765, -720, -210, -570, -30, 345])
            if off is None:
                out.append(('iso-z', dt.isoformat() + 'Z'))
            else:
                tz = datetime.timezone(datetime.timedelta(minutes=off))
                out.append(('iso-offset-pos' if off > 0 else 'iso-offset', dt.replace(tzinfo=tz).isoformat()))
    elif name == 'drm':
        from dlv.workload import drm_selection
        for _ in range(8):
            sel = drm_selection(rng, allow_none=False)
            out.append(('drm-selection', sel))
        out += [('drm-selection', 'all-moov'), ('drm-selection', 'all-cenc-pro'), ('drm-selection', 'none'),
                # one system named twice (the later entry wins wherever the selection is used)
                ('drm-selection-repeated', 'playready-cenc,playready-moov'), ('drm-selection-repeated', 'clearkey,clearkey-pro'),
                ('drm-selection-repeated', 'marlin-moov,playready,marlin-cenc')]
    elif fs == '_errors_from_string':
        out += [('errors-number', '404=5'), ('errors-number', '503=1,410=77,504=3'),
                ('errors-time', '404=12:34:56Z'), ('errors-time', '503=00:00:01Z,404=23:59:59Z')]
    elif fs in ('int_or_none_from_string', 'int_or_default'):
        for v in (0, 1, 2, 16, 30, 60, 1800, 2**31, -1, rng.randrange(10**6)):
            out.append(('int', str(v)))
        if fs == 'int_or_none_from_string':
            out += [('none', 'none'), ('none', '')]          # "no value": overrides a default
    elif fs == 'float_or_none_from_string':
        out += [('float', '0.5'), ('float', '30'), ('none', 'none'), ('none', '')]
    elif fs == 'bool_from_string':
        out += [('bool', '0'), ('bool', '1')]
    elif fs == 'unquoted_url_or_none_from_string':
        for u in ('https://lic.example.test/la', 'https://lic.example.test/la?a=1&b=2', 'https://x.test/p?t=a+b/c==',
                  'https://x.test/p%20q?z=%26', 'https://x.test/é?q=中', 'ms3://host/path?x={cfgs}'):
            out.append(('url-plain' if '?' not in u else 'url-reserved', u))
    elif fs == 'list_without_none_from_string':
        if name == 'events':
            out += [('list', 'ping'), ('list', 'scte35'), ('list', 'ping,scte35')]
        elif name == 'vcorrupt':
            out += [('list', '00:00:10Z'), ('list', '00:00:10Z,00:01:00Z')]
        else:
            out += [('list', 'a.example.test'), ('list', 'a.example.test,b.example.test'),
                    ('list-reserved', 'a b,c+d'), ('list-reserved', 'x%41,y&z=1')]
    elif fs in ('string_or_none', 'default_to_string') and not opt.cgi_choices:
        for s in RESERVED_STRINGS:
            out.append(('string-plain' if s.replace('_', '').isalnum() else 'string-reserved', s))
    return out


def canonical(opt, value):
    """the DRM selection is a mapping system -> locations: its order carries no meaning"""
    if opt is not None and opt.cgi_name == 'drm' and isinstance(value, list):
        return {name: frozenset(str(x) for x in locs) for name, locs in value}
    return value


def url_decode(text: str) -> str:
    return dict(parse_qsl('k=' + text, keep_blank_values=True)).get('k', '')


def run_unit(ctx: ShardCtx, res: ShardResult) -> None:
    from dashlive.server.options.repository import OptionsRepository
    rng = ctx.rng
    opts = OptionsRepository.get_dash_options()
    res.count('unit.options', len(opts))
    rounds = ctx.scale(3, 60)
    for _ in range(rounds):
        for opt in opts:
            for cls, text in option_texts(opt, rng):
                res.evaluations += 1
                rp = {'unit': {'option': opt.cgi_name, 'text': text}}
                try:
                    v = opt.from_string(text)
                except Exception as err:
                    res.violation('legal-option-text-refused', f'{opt.cgi_name}={text!r}: from_string raised {err!r}', rp)
                    continue
                try:
                    s = opt.to_string(v)
                except Exception as err:
                    res.violation('option-to-string-raises', f'{opt.cgi_name}: to_string({v!r}) raised {err!r}', rp)
                    continue
                res.count('unit.roundtrips')
                res.keys.add(f'unit|{opt.cgi_name}|{cls}')
                # the text as the real URL builder writes it (it formats whatever to_string returned)
                from dashlive.utils.objects import dict_to_cgi_params
                s = dict_to_cgi_params({'k': s})[3:]
                try:
                    v2 = opt.from_string(url_decode(s))
                except Exception as err:
                    res.violation(f'option-url-text-not-parseable-{cls}',
                                  f'{opt.cgi_name}: to_string({v!r}) = {s!r}; parsing that URL text raised {err!r}', rp)
                    continue
                if canonical(opt, v2) != canonical(opt, v):
                    res.violation(f'option-roundtrip-not-identity-{cls}',
                                  f'{opt.cgi_name}: {v!r} -> URL text {s!r} -> {v2!r}', rp)
                if len(res.samples) < 3:
                    res.samples.append({'layer': 'unit', 'option': opt.cgi_name, 'value': repr(v), 'url_text': s})


class OptionRecorder:
    """Wrapper on the real calculate_options: remembers the container each handler call resolved."""

    def __init__(self) -> None:
        from dashlive.server.requesthandler.base import RequestHandlerBase
        self.cls = RequestHandlerBase
        self.orig = RequestHandlerBase.calculate_options
        self.captured: list = []
        rec = self

        def wrapped(handler, *a, **kw):
            o = rec.orig(handler, *a, **kw)
            rec.captured.append((type(handler).__name__, o))
            return o
        wrapped.__wrapped__ = self.orig
        RequestHandlerBase.calculate_options = wrapped

    def uninstall(self) -> None:
        self.cls.calculate_options = self.orig

    def take(self):
        c, self.captured = self.captured, []
        return c


def flat_options(container) -> dict:
    """full option name -> value (nested groups flattened as prefix.name)"""
    out = {}
    for key in container._fields:
        if key.startswith('_'):
            continue
        val = getattr(container, key)
        if hasattr(val, '_fields') and hasattr(val, 'generate_cgi_parameters'):
            for k2 in val._fields:
                if not k2.startswith('_'):
                    out[f'{key}.{k2}'] = getattr(val, k2)
        else:
            out[key] = val
    return out


def gen_manifest_case(ctx: ShardCtx) -> dict:
    from dlv import workload as W
    from dlv.checks.c05 import ALL_TEMPLATES
    from dlv.livewalk import TIMELINE_TEMPLATES, DRM_TEMPLATES
    rng = ctx.rng
    manifest, modes = rng.choice(ALL_TEMPLATES)
    mode = rng.choice(modes)
    if mode == 'live':
        params, now = W.live_params(rng, manifest, manifest in TIMELINE_TEMPLATES, manifest in DRM_TEMPLATES)
    else:
        params, now = {}, W.calendar_instants(rng)
        if manifest in DRM_TEMPLATES and mode != 'odvod':
            sel = W.drm_selection(rng)
            if sel:
                params['drm'] = sel
    # extra options that influence media generation
    extras = [
        ('playready__la_url', rng.choice(['https://lic.example.test/la?a=1&b=2', 'https://x.test/p?t=a+b/c=='])),
        ('marlin__la_url', 'ms3://lic.example.test/m?x=1&y=2'),
        ('clearkey__la_url', 'https://ck.example.test/ck?u=v&w=x+y'),
        ('playready__version', rng.choice(['1.0', '2.0', '3.0', '4.0'])),
        ('drm', rng.choice(['playready-cenc,playready-moov', 'clearkey-moov,clearkey-cenc', 'playready-pro,clearkey,playready-moov'])),
        ('playready__piff', rng.choice(['0', '1'])),
        ('bugs', 'saio'),
        ('failures', str(rng.randrange(0, 4))),
        ('verr', rng.choice(['404=5', '503=3,404=7'])),
        ('aerr', rng.choice(['404=5', '503=2'])),
        ('terr', rng.choice(['404=2', '410=1,503=3'])),
        ('vcorrupt', '00:00:20Z'),
        ('frames', str(rng.randrange(1, 6))),
        ('leeway', str(rng.choice([0, 7, 33]))), ('leeway', rng.choice(['none', ''])), ('depth', rng.choice(['none', ''])),
        ('events', rng.choice(['ping', 'scte35'])),
        ('ping__interval', str(rng.choice([100, 250]))),
        ('ping__value', rng.choice(['7', 'a b'])),
        ('scte35__program_id', str(rng.randrange(1, 5000))),
        ('main_audio', 'bbb_a2'), ('ad_audio', 'bbb_a2'), ('tlang', 'en'), ('time_value', 'a b&c'),
    ]
    stream = rng.choice(['bbb', 'bbb', 'tears', 'dflt', 'dflt'])
    if stream == 'dflt':
        # values that switch a saved per-stream default off again, or replace it
        extras += [('events', 'none'), ('bugs', 'none'), ('playready__la_url', 'none'), ('events', ''),
                   ('bugs', ''), ('depth', rng.choice(['1800', '2400', '60'])), ('events', 'none'), ('bugs', 'none')]
    if mode == 'live':
        # positions given as a time of day: the manifest translates them into the number of the segment that
        # is live at that time on the day of availabilityStartTime, per Period and media type
        def tod() -> str:
            return (now - datetime.timedelta(seconds=rng.choice([2, 5, 9, 14, 22, 47, 200]))).strftime('%H:%M:%SZ')
        extras += [('verr', f'404={tod()}'), ('aerr', f'503={tod()}'), ('aerr', f'404={tod()},503={tod()}'),
                   ('terr', f'404={tod()}'), ('terr', f'410={tod()},503=7'),
                   ('vcorrupt', tod()), ('vcorrupt', f'{tod()},{tod()}')]
        if rng.random() < 0.5:
            params['start'] = rng.choice(['today', 'today', 'epoch', 'month'])
        elif rng.random() < 0.3:
            # an explicit start that is not in the past for the manifest's clock (the server moves it back by
            # whole days): in the future, or younger than the clock drift asked for
            ahead = rng.choice([20, 3600, 86400 + 7, -20, -45])
            params['start'] = W.isoz((now + datetime.timedelta(seconds=ahead)).replace(microsecond=0))
            if ahead < 0:
                params['drift'] = rng.choice(['60', '30', '100'])
    for k, v in rng.sample(extras, rng.randrange(1, 5)):
        if k.startswith(('playready', 'marlin', 'clearkey', 'bugs')) and 'drm' not in params:
            if manifest in DRM_TEMPLATES and mode != 'odvod':
                params['drm'] = 'all'
        if k.startswith(('ping__', 'scte35__')):
            params.setdefault('events', k.split('__')[0])
        if k == 'failures':
            # a failure count means something only next to an error injection
            inj = rng.choice(['verr', 'aerr', 'terr', 'terr'])
            params.setdefault(inj, {'verr': '503=5', 'aerr': '503=2', 'terr': '503=3'}[inj])
        params[k] = v
    route = 'dash'
    if manifest == 'hand_made.mpd' and mode != 'odvod' and rng.random() < 0.35:
        # Periods over streams with different audio timing (44.1 kHz / 48 kHz)
        route, stream = 'mps', rng.choice(['c07mps', 'c07spm'])
    return {'manifest': manifest, 'mode': mode, 'params': params, 'now': now.isoformat(), 'stream': stream,
            'route': route}


def nominal_timing(sf) -> tuple[int, int]:
    """(timescale, nominal segment duration) of a stored file: the mean duration of all but its last segment"""
    first = sf.segments[0].tfdt or 0
    last_start = first + sum(x.duration for x in sf.segments[:-1])
    return sf.timescale, (last_start - first) // (len(sf.segments) - 1)


def translate_positions(text: str, now, ast, depth: int, ts: int, seg_dur: int) -> list[str] | None:
    """The documented meaning of error/corruption positions: a number is taken as it is; a time of day names
    the segment that is live at that time on the day of availabilityStartTime (number = elapsed * timescale //
    nominal segment duration), and is dropped when it lies before the time-shift window.
    None = too close to the window edge to call."""
    from fractions import Fraction
    out = []
    for item in text.split(','):
        code, _, pos = item.rpartition('=')
        if ':' not in pos:
            out.append(item)
            continue
        hh, mm, ss = pos.rstrip('Z').split(':')
        tm = ast.replace(hour=int(hh), minute=int(mm), second=int(float(ss)), microsecond=ast.microsecond)
        edge = now - datetime.timedelta(seconds=depth)
        if abs((tm - edge).total_seconds()) < 1.5:
            return None
        if tm < edge:
            continue
        if tm < ast:
            return None         # before the stream began: no segment is live at that time
        n = int(Fraction(int((tm - ast).total_seconds() * 10**6), 10**6) * ts / seg_dur)
        out.append(f'{code}={n}' if code else f'{n}')
    return out


def run_integration(ctx: ShardCtx, res: ShardResult) -> None:
    from dlv.appenv import AppEnv
    from dlv.livewalk import qs, LiveWalk
    from dlv.oracles import mpd as M
    from dashlive.server.options.repository import OptionsRepository
    from dashlive.server.options.types import OptionUsage
    env = AppEnv()
    rec = OptionRecorder()
    try:
        env.add_fixture_stream('bbb')
        env.add_fixture_stream('tears')
        env.add_defaults_stream()
        from dlv.mps import add_mps_db
        from dlv.livewalk import StoredIndex
        p_bbb = {'pid': 'p1', 'stream': 'bbb', 'start': 4, 'duration': 24,
                 'tracks': [('video', 1, 'main'), ('audio', 2, 'main'), ('text', 4, 'main')]}
        p_tears = {'pid': 'p2', 'stream': 'tears', 'start': 8, 'duration': 32,
                   'tracks': [('video', 1, 'main'), ('audio', 2, 'main')]}
        add_mps_db(env, 'c07mps', [p_bbb, p_tears], title='bbb then tears')
        add_mps_db(env, 'c07spm', [dict(p_tears, pid='p1'), dict(p_bbb, pid='p2')], title='tears then bbb')
        index = StoredIndex(env)
        by_name = {name: sf for (_d, name), sf in index.files.items()}
        client = env.client()
        cgi_map = OptionsRepository.get_cgi_map()
        by_full = {}
        for o in OptionsRepository.get_dash_options():
            by_full[(f'{o.prefix}.{o.full_name}' if o.prefix else o.full_name)] = o
        use_of = {'video': OptionUsage.VIDEO, 'audio': OptionUsage.AUDIO, 'text': OptionUsage.TEXT}
        n = ctx.scale(10**6, 10**7)
        # invariant at a hook: the process-wide default options are the same object for every request;
        # no request may leave a trace in them (they are compared, nested containers included, after
        # every manifest request)
        pristine = flat_options(OptionsRepository.get_default_options())
        for i in range(n):
            case = gen_manifest_case(ctx)
            env.clock.set(datetime.datetime.fromisoformat(case['now']))
            url = f"/{case.get('route', 'dash')}/{case['mode']}/{case['stream']}/{case['manifest']}" + qs(case['params'])
            rec.take()
            r = env.get(url, client=client)
            res.evaluations += 1
            caps = rec.take()
            rp = {'case': case}
            res.count('int.defaults_compared')
            now_defaults = flat_options(OptionsRepository.get_default_options())
            if now_defaults != pristine:
                changed = sorted(k for k in set(pristine) | set(now_defaults) if pristine.get(k) != now_defaults.get(k))
                res.violation('request-changes-process-wide-default-options',
                              f'{url}: after this request the default options differ in {changed[:6]} '
                              f'(e.g. {changed[0]}: {pristine.get(changed[0])!r} -> {now_defaults.get(changed[0])!r})', rp)
                pristine = now_defaults
            if r.status_code != 200 or not caps:
                res.count(f'int.manifest_status.{r.status_code}')
                if r.status_code >= 500:
                    res.count('int.manifest_5xx (left to C16)')
                continue
            m_opts = flat_options(caps[-1][1])
            try:
                doc = M.parse_mpd(r.data, 'http://localhost' + url)
            except Exception:
                continue
            res.count('int.manifests')
            seen_adp = set()
            first_audio: dict[int, object] = {}
            for period, rep in doc.all_reps():
                if rep.content_type == 'audio':
                    first_audio.setdefault(id(period), rep)
            for period, rep in doc.all_reps():
                adp_key = id(rep.adaptation_element)
                if adp_key in seen_adp:
                    continue
                seen_adp.add(adp_key)
                ctype = rep.content_type if rep.content_type in use_of else 'text'
                urls = []
                if case['mode'] == 'odvod':
                    urls.append(('media', rep.base_url, {'Range': 'bytes=0-99'}))
                else:
                    iu = rep.init_url()
                    if iu:
                        urls.append(('init', iu, {}))
                    try:
                        if rep.timeline:
                            e = rep.timeline[-1]
                            urls.append(('media', rep.media_url(number=rep.start_number, time=e.t), {}))
                        elif doc.type == 'dynamic':
                            adds = M.live_addressable(doc, period, rep, env.clock.instant)
                            if adds:
                                urls.append(('media', adds[-1].url, {}))
                        else:
                            urls.append(('media', rep.media_url(number=rep.start_number), {}))
                    except M.MpdError:
                        pass
                for what, u, hdrs in urls:
                    rec.take()
                    rr = env.get(LiveWalk._path(u), client=client, headers=hdrs)
                    caps2 = rec.take()
                    res.count('int.media_requests')
                    q = parse_qsl(urlsplit(u).query, keep_blank_values=True)
                    # (1) nothing outside the usage mask is forwarded
                    res.count('int.usage_checked')
                    for k, _v in q:
                        o = cgi_map.get(k)
                        if o is None:
                            continue
                        if (o.usage & use_of[ctype]) == 0:
                            res.violation(f'option-forwarded-to-wrong-media-type-{k}',
                                          f'{url}: {ctype} {what} URL carries {k}= (usage {o.usage!r}): {u}', rp)
                    if rr.status_code >= 400 and not caps2:
                        # the media endpoint could not even parse what the manifest wrote
                        mech = 'media-url-options-not-parseable'
                        for k, v in q:
                            if k in ('verr', 'aerr', 'terr') and '[' in v:
                                mech = 'error-option-forwarded-as-python-repr'
                        res.violation(mech, f'{url}: {ctype} {what} URL {u} -> {rr.status_code} {rr.data[:60]!r}', rp,
                                      exception=env.rec.last_exception)
                        continue
                    if not caps2:
                        continue
                    x_opts = flat_options(caps2[-1][1])
                    # (2) identical values for every option that applies to this media type
                    for full, o in by_full.items():
                        if (o.usage & use_of[ctype]) == 0 or full in ('mode',):
                            continue
                        if full not in m_opts:
                            continue        # removed by the manifest handler as unused for this request
                        res.count('int.fields_compared')
                        a, b = m_opts.get(full), x_opts.get(full)
                        if full in ('videoErrors', 'audioErrors', 'textErrors', 'videoCorruption'):
                            if a and not all(isinstance(p, int) for _, p in a) if full != 'videoCorruption' else True:
                                continue
                            if full != 'videoCorruption':
                                a = sorted(a or [])
                                b = sorted(b or [])
                        if canonical(o, a) != canonical(o, b):
                            res.violation(f'option-value-differs-at-media-endpoint-{o.cgi_name}',
                                          f'{url}: {ctype} {what}: {full} = {a!r} at the manifest, {b!r} at the media '
                                          f'endpoint (URL {u})', rp)
                    # (2a) independent of the usage flags of the registry: an error injection that reaches a
                    # media type takes the failure count with it
                    qd0 = dict(q)
                    if case['params'].get('failures') not in (None, '') and any(k in qd0 for k in ('verr', 'aerr', 'terr')):
                        res.count('int.failure_count_checked')
                        if qd0.get('failures') != case['params']['failures']:
                            res.violation('failure-count-not-forwarded-with-error-injection',
                                          f'{url}: {ctype} {what} URL carries '
                                          f'{[k for k in ("verr", "aerr", "terr") if k in qd0]} but failures={qd0.get("failures")!r} '
                                          f'(requested {case["params"]["failures"]!r}): {u}', rp)
                    # (2b) the availability start the media endpoint obtains is the one the manifest declares
                    if doc.type == 'dynamic':
                        ast_doc = doc.dt('availabilityStartTime')
                        ast_media = x_opts.get('availabilityStartTime')
                        if ast_doc is not None and isinstance(ast_media, datetime.datetime):
                            res.count('int.ast_compared')
                            if ast_media != ast_doc:
                                res.violation('media-endpoint-start-differs-from-declared-availability-start',
                                              f'{url}: MPD@availabilityStartTime {ast_doc.isoformat()}, the {ctype} {what} '
                                              f'URL gives the media endpoint start={ast_media.isoformat()} ({u})', rp)
                    # (3) positions given as a time of day arrive as the number of the segment that is live
                    # at that time in *this* Period's media of *this* type
                    if doc.type == 'dynamic' and rep.id in by_name:
                        qd = dict(q)
                        for cgi, full in (('verr', 'videoErrors'), ('aerr', 'audioErrors'), ('terr', 'textErrors'),
                                          ('vcorrupt', 'videoCorruption')):
                            given = case['params'].get(cgi)
                            if not given or ':' not in given or (cgi_map[cgi].usage & use_of[ctype]) == 0:
                                continue
                            ast = doc.dt('availabilityStartTime')
                            depth = m_opts.get('timeShiftBufferDepth')
                            if ast is None or depth is None:
                                continue
                            # (the manifest's clock: drift=N asks for a manifest as it was N seconds ago)
                            now_m = env.clock.instant - datetime.timedelta(seconds=m_opts.get('clockDrift') or 0)
                            want = translate_positions(given, now_m, ast, int(depth), *nominal_timing(by_name[rep.id]))
                            if want is None:
                                res.count('int.time_positions_on_window_edge')
                                continue
                            res.count('int.time_positions_compared')
                            got = [x for x in qd.get(cgi, '').split(',') if x]
                            if sorted(got) == sorted(want):
                                res.count('int.time_positions_identical')
                                continue
                            fa = first_audio.get(id(period))
                            alt = None
                            if ctype == 'audio' and fa is not None and fa.id != rep.id and fa.id in by_name:
                                alt = translate_positions(given, now_m, ast, int(depth), *nominal_timing(by_name[fa.id]))
                            if alt is not None and sorted(got) == sorted(alt):
                                res.violation('error-time-translated-with-first-audio-sets-timing',
                                              f'{url}: {ctype} {what} of {rep.id}: {cgi}={given} arrives as {got}; with the '
                                              f'timing of {rep.id} it names {want} (the numbers are those of {fa.id})', rp)
                            else:
                                res.violation(f'time-position-names-another-segment-{cgi}',
                                              f'{url}: period {getattr(period, "id", None)} {ctype} {what} of {rep.id}: '
                                              f'{cgi}={given} arrives as {got}, the segments live at those times are {want} '
                                              f'(AST {ast.isoformat()}, depth {depth})', rp)
                    res.keys.add(f'int|{case["manifest"]}|{case["mode"]}|{ctype}|' +
                                 '+'.join(sorted(k for k, _ in q)))
                    if len(res.samples) < 6:
                        res.samples.append({'layer': 'integration', 'manifest': url, 'media_url': u})
            if ctx.out_of_time():
                break
    finally:
        rec.uninstall()
        env.close()


def run_shard(ctx: ShardCtx) -> ShardResult:
    from dlv.reach import Reach
    res = ShardResult()
    from dlv.core import setup_paths
    setup_paths()
    reach = Reach([
        ('dashlive.server.options.container', 'OptionsContainer._generate_parameters_dict'),
        ('dashlive.server.requesthandler.manifest_context', 'ManifestContext.calculate_cgi_parameters'),
        ('dashlive.mpeg.dash.adaptation_set', 'AdaptationSet.append_cgi_params'),
        ('dashlive.utils.objects', 'dict_to_cgi_params'),
        ('dashlive.server.options.repository', 'OptionsRepository.convert_options'),
    ])
    run_unit(ctx, res)
    run_integration(ctx, res)
    reach.report(res)
    return res
