"""C10 -- init segments carry exactly the requested protection data, nothing else changes.

HTTP-boundary monitor: every init-segment response is diffed box by box (independent walker)
against the stored init segment; the only differences admitted are pssh boxes appended to moov
for the selected systems that define init data and include `moov`, and removal of mehd in
live mode.  Each pssh is read back (SystemID, KIDs, PlayReady Object -> WRMHEADER KID).
"""
from __future__ import annotations

import datetime
import itertools

from dlv.core import ShardCtx, ShardResult
from dlv.oracles import isobmff as ib
from dlv.oracles import playready_ref as pr

PROPERTY = 'C10'
LEVEL = 'exploration'
RULE = ('product of: stored representation (12 fixture files: audio/video/text x clear/encrypted, two streams) x '
        'mode {live,vod} x per-system location choice (absent | all | each of the 7 non-empty subsets of '
        '{pro,cenc,moov}) for each of playready/marlin/clearkey (9^3 = 729 selections, plus all / none / all-<locs>) x '
        'playready version {absent,1.0,2.0,3.0,4.0} x route {single-period, multi-period}. thorough enumerates the '
        'product completely; quick takes a deterministic 1/6 slice rotated by seed. Non-trivial = a 200 init '
        'response was diffed; distinct = (file, mode, selection, version, route).')
ASSUMPTIONS = [
    'oracle: own ISO-BMFF walker; stored init segment = top-level boxes up to moov, optionally followed by a byte-identical prefix of the boxes the stored file holds between moov and its first moof (the service indexes a leading styp/sidx with the init segment)',
    'appended pssh boxes may come in any order but must follow every original moov child',
    'PlayReady pssh payload is read with an independent PRO/WRMHEADER reader (struct + lxml); KID order via uuid.bytes_le',
    'shims + werkzeug test client as HTTP boundary',
]
REQUIRED_COUNTERS = ['init.diffed', 'pssh.playready', 'pssh.clearkey', 'mehd.removed', 'identical.clear',
                     'identical.no_moov_location', 'route.mps', 'reach.generate_init_segment']
EXHAUSTIVE = {'quick': False, 'thorough': True}

SYSTEMS = ['playready', 'marlin', 'clearkey']
LOCS = ['pro', 'cenc', 'moov']


def shards(tier: str) -> int:
    return 16


def loc_choices():
    out = [None, 'ALL']
    for n in (1, 2, 3):
        for c in itertools.combinations(LOCS, n):
            out.append(c)
    return out


def selections():
    """-> list of (drm string or None, {system: set(locations)})"""
    out = []
    ch = loc_choices()
    for combo in itertools.product(ch, repeat=3):
        parts = []
        exp = {}
        for sysname, c in zip(SYSTEMS, combo):
            if c is None:
                continue
            if c == 'ALL':
                parts.append(sysname)
                exp[sysname] = set(LOCS)
            else:
                parts.append(sysname + '-' + '-'.join(c))
                exp[sysname] = set(c)
        out.append((','.join(parts) if parts else None, exp))
    out.append(('all', {s: set(LOCS) for s in SYSTEMS}))
    out.append(('none', {}))
    for n in (1, 2, 3):
        for c in itertools.combinations(LOCS, n):
            out.append(('all-' + '-'.join(c), {s: set(c) for s in SYSTEMS}))
    return out


def diff_init(stored: bytes, served: bytes, live: bool):
    """-> (problems: list[(mechanism, message)], appended pssh boxes, mehd_removed)"""
    problems = []
    try:
        a = ib.parse_file(stored)
        b = ib.parse_file(served)
    except ib.BoxError as err:
        return [('init-not-well-formed', f'{err}')], [], False
    appended = []
    removed = [False]

    def fixed_part(buf, box):
        end = box.children[0].start if box.children else box.end
        return buf[box.start + 4:end]     # everything of the header except the 32-bit size

    def compare(pa, pb, path):
        ca, cb = list(pa.children), list(pb.children)
        if live and pa.type == b'mvex':
            before = len(ca)
            ca = [c for c in ca if c.type != b'mehd']
            if len(ca) != before:
                removed[0] = True
        extra = []
        if pa.type == b'moov':
            while len(cb) > len(ca) and cb[-1].type == b'pssh':
                extra.insert(0, cb.pop())
            appended.extend(extra)
        if [c.type for c in ca] != [c.type for c in cb]:
            problems.append(('init-box-sequence-differs',
                             f'{path}: stored {[c.name() for c in ca]} served {[c.name() for c in cb]}'
                             f'{" + appended " + str([e.name() for e in extra]) if extra else ""}'))
            return
        for x, y in zip(ca, cb):
            if x.children or y.children:
                if fixed_part(stored, x) != fixed_part(served, y):
                    problems.append(('init-container-header-differs', f'{path}/{x.name()}'))
                compare(x, y, f'{path}/{x.name()}')
            elif stored[x.start:x.end] != served[y.start:y.end]:
                problems.append(('init-box-bytes-differ', f'{path}/{x.name()} ({x.size} vs {y.size} bytes)'))

    # The stored file may carry boxes between moov and the first moof (styp/sidx of the first
    # media segment) which the service's index attributes to the init segment: the served
    # top level must be the stored boxes up to moov followed by a byte-identical prefix of
    # what the stored file holds between moov and the first moof.
    moov_idx = [i for i, c in enumerate(a.children) if c.type == b'moov']
    if not moov_idx:
        return [('stored-file-without-moov', '')], [], False
    head = a.children[:moov_idx[0] + 1]
    tail = []
    for c in a.children[moov_idx[0] + 1:]:
        if c.type == b'moof':
            break
        tail.append(c)
    served_tail = b.children[len(head):]
    if len(served_tail) > len(tail):
        problems.append(('init-box-sequence-differs',
                         f'served top level {[c.name() for c in b.children]} has more boxes than the stored '
                         f'file holds before its first moof {[c.name() for c in head + tail]}'))
    else:
        for x, y in zip(tail, served_tail):
            if x.type != y.type or stored[x.start:x.end] != served[y.start:y.end]:
                problems.append(('init-trailing-box-differs', f'/{y.name()}'))
    a.children = head
    b.children = b.children[:len(head)]
    compare(a, b, '')
    return problems, appended, removed[0]


def check_pssh(served: bytes, box, kid: bytes, kids: list[bytes] | None = None):
    """-> (system name or None, problem or None)"""
    try:
        p = ib.read_pssh(served, box)
    except Exception as err:
        return None, ('pssh-not-parseable', f'{err}')
    if p['system_id'] == pr.SYSTEM_ID:
        try:
            pro = pr.parse_pro(p['data'])
        except Exception as err:
            return 'playready', ('playready-pro-not-parseable', f'{type(err).__name__}: {err}')
        hdr = pro['header']
        if hdr is None:
            return 'playready', ('playready-pro-without-header', '')
        want = pr.le_guid(kid)
        if want not in [k['kid_le'] for k in hdr['kids']]:
            return 'playready', ('playready-pssh-wrong-kid',
                                 f'WRMHEADER KIDs {[k["kid_le"].hex() for k in hdr["kids"]]} lack {want.hex()}')
        if p['version'] > 0 and kid not in p['kids']:
            return 'playready', ('playready-pssh-wrong-kid', 'v1 pssh KID list lacks the track KID')
        if kids is not None:
            # every key id of the track, each once
            have = sorted(k['kid_le'] for k in hdr['kids'])
            if have != sorted(pr.le_guid(k) for k in kids):
                return 'playready', ('playready-header-kids-differ-from-track-kids',
                                     f'WRMHEADER KIDs {[k.hex() for k in have]}, the track has '
                                     f'{[pr.le_guid(k).hex() for k in kids]}')
            if p['version'] > 0 and sorted(p['kids']) != sorted(kids):
                return 'playready', ('playready-pssh-kid-list-differs-from-track-kids',
                                     f'{[k.hex() for k in p["kids"]]}')
        return 'playready', None
    if p['system_id'] == pr.CLEARKEY_PSSH_SYSTEM_ID:
        if p['version'] != 1 or kid not in p['kids'] or (kids is not None and sorted(p['kids']) != sorted(kids)):
            return 'clearkey', ('clearkey-pssh-wrong-kid',
                                f'version {p["version"]} kids {[k.hex() for k in p["kids"]]} want {kid.hex()}')
        if p['data']:
            return 'clearkey', ('clearkey-pssh-has-data', '')
        return 'clearkey', None
    return None, ('pssh-unknown-system-id', p['system_id'].hex())


def run_shard(ctx: ShardCtx) -> ShardResult:
    from dlv.appenv import AppEnv
    from dlv.mps import add_mps_db
    from dlv.reach import Reach
    res = ShardResult()
    env = AppEnv()
    try:
        env.add_fixture_stream('bbb')
        env.add_fixture_stream('tears')
        from dlv import synth
        track_kids = synth.add_protection_variants_stream(env, res)
        mps = add_mps_db(env, 'c10mps', [
            {'pid': 'p1', 'stream': 'bbb', 'start': 4, 'duration': 32,
             'tracks': [('video', 1, 'main'), ('audio', 2, 'main'), ('audio', 3, 'alternate'), ('text', 4, 'main')]},
            {'pid': 'p2', 'stream': 'tears', 'start': 8, 'duration': 44,
             'tracks': [('video', 1, 'main'), ('audio', 2, 'main')]}])
        ppk = {p['stream']: p['pk'] for p in mps['periods']}
        reach = Reach([
            ('dashlive.server.requesthandler.media_requests', 'MediaRequestBase.generate_init_segment'),
            ('dashlive.server.requesthandler.drm_context', 'DrmContext.__init__'),
            ('dashlive.server.requesthandler.drm_context', 'DrmContext.generate_drm_location_tuples'),
            ('dashlive.drm.playready', 'PlayReady.generate_pssh'),
            ('dashlive.drm.clearkey', 'ClearKey.generate_pssh'),
        ])
        env.clock.set(datetime.datetime(2024, 6, 1, 8, 30, 12, tzinfo=datetime.timezone.utc))
        client = env.client()
        files = []
        for (directory, name), buf in sorted(env.stored.items()):
            sf = ib.index_file(buf)
            first = sf.init_boxes[0].start
            ext = {b'vide': 'm4v', b'soun': 'm4a'}.get(sf.handler, 'mp4')
            files.append({'dir': directory, 'name': name, 'ext': ext, 'init': buf,
                          'kid': sf.tenc['kid'] if sf.tenc else None,
                          'kids': track_kids.get(name, [sf.tenc['kid']] if sf.tenc else None)})
        sels = selections()
        versions = [None, '1.0', '2.0', '3.0', '4.0']
        if ctx.replay:
            combos = [ctx.replay['replay']['combo']]
        else:
            combos = []
            idx = 0
            stride = 1 if ctx.tier == 'thorough' else 6
            for fi, f in enumerate(files):
                for mode in ('live', 'vod'):
                    for si, (drm, exp) in enumerate(sels):
                        for ver in versions:
                            if ver is not None and 'playready' not in exp:
                                continue
                            for route in ('single', 'mps'):
                                if route == 'mps' and f['dir'] not in ppk:
                                    continue
                                idx += 1
                                if idx % ctx.nshards != ctx.shard:
                                    continue
                                if stride > 1 and (idx // ctx.nshards + ctx.seed) % stride:
                                    continue
                                combos.append({'file': fi, 'mode': mode, 'sel': si, 'version': ver, 'route': route})
        for n, combo in enumerate(combos):
            f = files[combo['file']]
            drm, exp = sels[combo['sel']]
            params = []
            if drm is not None:
                params.append(f'drm={drm}')
            if combo['version']:
                params.append(f'playready__version={combo["version"]}')
            q = ('?' + '&'.join(params)) if params else ''
            if combo['route'] == 'single':
                url = f'/dash/{combo["mode"]}/{f["dir"]}/{f["name"]}/init.{f["ext"]}{q}'
            else:
                url = f'/mps/{combo["mode"]}/c10mps/{ppk[f["dir"]]}/{f["name"]}/init.{f["ext"]}{q}'
                res.count('route.mps')
            resp = env.get(url, client=client)
            replay = {'combo': combo, 'url': url}
            encrypted = f['kid'] is not None
            res.evaluations += 1
            if resp.status_code != 200:
                # an encrypted file without any selected DRM is refused on the single-period route
                if encrypted and not exp and resp.status_code == 404:
                    res.count('refused.encrypted_without_drm')
                    continue
                res.violation('init-request-refused' if resp.status_code < 500 else 'init-request-5xx',
                              f'{url} -> {resp.status_code} {resp.data[:100]!r}', replay,
                              exception=env.rec.last_exception)
                continue
            live = combo['mode'] == 'live'
            problems, appended, mehd_removed = diff_init(f['init'], resp.data, live)
            res.count('init.diffed')
            res.keys.add(f'{f["name"]}|{combo["mode"]}|{drm}|{combo["version"]}|{combo["route"]}')
            if mehd_removed:
                res.count('mehd.removed')
            for mech, msg in problems:
                res.violation(mech, f'{url}: {msg}', replay)
            want = set()
            if encrypted:
                for sysname, locs in exp.items():
                    if sysname in ('playready', 'clearkey') and 'moov' in locs:
                        want.add(sysname)
            got = []
            for box in appended:
                sysname, problem = check_pssh(resp.data, box, f['kid'] or b'\0' * 16, f['kids'])
                if problem is not None:
                    res.violation(problem[0], f'{url}: {problem[1]}', replay)
                if sysname:
                    got.append(sysname)
                    res.count('pssh.' + sysname)
            if sorted(got) != sorted(want):
                if not encrypted:
                    mech = 'pssh-added-to-clear-track'
                elif set(got) - want:
                    mech = 'pssh-added-for-unselected-system-or-location'
                elif len(got) != len(set(got)):
                    mech = 'pssh-duplicated'
                else:
                    mech = 'pssh-missing-for-selected-system'
                res.violation(mech, f'{url}: appended pssh for {sorted(got)}, expected {sorted(want)}', replay)
            if not want and not appended and not problems:
                res.count('identical.clear' if not encrypted else 'identical.no_moov_location')
            if len(res.samples) < 4 and appended:
                res.samples.append({'url': url, 'appended': [sorted(got)], 'mehd_removed': mehd_removed})
            if n % 200 == 0 and ctx.out_of_time() and ctx.tier == 'quick':
                res.notes.append('combination list cut short by the time budget')
                break
        reach.report(res)
    finally:
        env.close()
    return res
