"""C06 -- static manifests describe the stored media completely and exactly.

HTTP-boundary monitor: every static (vod / on-demand) manifest is walked end to end: each
enumerated segment (numbers, timeline entries, SegmentList byte ranges) and the one past the
end is requested; the independent walker chains decode times and durations and compares the
ranged bodies with the stored file bytes.
"""
from __future__ import annotations

import datetime
from fractions import Fraction

from dlv.core import ShardCtx, ShardResult
from dlv.oracles import isobmff as ib
from dlv.oracles import mpd as M

PROPERTY = 'C06'
LEVEL = 'exploration'
RULE = ('every vod/odvod-capable template (10 template x mode pairs) x streams (bbb incl. text, tears, synthetic) x option '
        'vectors over timeline/drm/abr/acodec/base/events x every Representation x every enumerated segment index incl. '
        'first, last and last+1. Non-trivial = a static manifest was accepted and at least one representation was walked '
        'end to end; distinct = (stream, template, mode, addressing, drm system set, representation).')
ASSUMPTIONS = [
    'number of segments a $Number$ template enumerates = ceil(period duration / (duration/timescale)) (ISO/IEC 23009-1 5.3.9.5.3)',
    'stored duration / first decode time come from the walker\'s own scan of the stored file',
    'on-demand ranges: must tile the file from the start of the init range to the end of file, each media range being whole boxes with exactly one moof and one mdat and starting with styp|sidx|emsg|moof',
    'declared presentation duration vs reference duration tolerance 0.5 ms (+1 us for text rounding)',
    'shims + werkzeug test client as HTTP boundary',
]
REQUIRED_COUNTERS = ['static.manifests', 'walk.number', 'walk.time', 'walk.ranges', 'past_end.checked', 'timeline.entries_compared',
                     'duration.checked', 'reach.generateSegmentList', 'reach.calculate_vod_params']

UTC = datetime.timezone.utc
VOD_TEMPLATES = [('hand_made.mpd', 'vod'), ('hand_made.mpd', 'odvod'), ('manifest_a.mpd', 'vod'),
                 ('manifest_b.mpd', 'vod'), ('manifest_e.mpd', 'vod'), ('manifest_h.mpd', 'vod'),
                 ('manifest_i.mpd', 'vod'), ('manifest_ef.mpd', 'vod'), ('manifest_n.mpd', 'vod'),
                 ('manifest_vod_aiv.mpd', 'odvod')]


def shards(tier: str) -> int:
    return 16


def ceil_frac(f: Fraction) -> int:
    return -((-f.numerator) // f.denominator)


class StaticWalk:
    def __init__(self, env, res: ShardResult, index, refs) -> None:
        self.env, self.res, self.index, self.refs = env, res, index, refs
        self.client = env.client()

    def get(self, url, **kw):
        from dlv.livewalk import LiveWalk
        return self.env.get(LiveWalk._path(url), client=self.client, **kw)

    def run_case(self, case: dict) -> None:
        from dlv.livewalk import qs
        res = self.res
        self.env.clock.set(datetime.datetime.fromisoformat(case['now']))
        url = f"/dash/{case['mode']}/{case['stream']}/{case['manifest']}" + qs(case['params'])
        r = self.env.get(url, client=self.client)
        res.evaluations += 1
        rp = {'case': case}
        if r.status_code != 200:
            res.count(f'manifest.status.{r.status_code}')
            return
        try:
            doc = M.parse_mpd(r.data, 'http://localhost' + url)
        except Exception as err:
            res.count('manifest.unparseable')
            return
        if doc.type != 'static':
            res.violation('static-mode-manifest-not-static', f'{url}: MPD@type={doc.type}', rp)
            return
        res.count('static.manifests')
        stream = case['stream']
        ref = self.refs.get(stream)
        # declared presentation duration
        mpd_dur = doc.dur('mediaPresentationDuration')
        if mpd_dur is None:
            durs = [p.duration for p in doc.periods]
            mpd_dur = sum(durs) if durs and all(d is not None for d in durs) else None
        if mpd_dur is None:
            res.violation('static-manifest-without-duration', f'{url}', rp)
        elif ref is not None:
            res.count('duration.checked')
            if abs(mpd_dur - ref) > Fraction(1, 2000) + Fraction(1, 10**6):
                res.violation('declared-duration-differs-from-reference',
                              f'{url}: declares {float(mpd_dur)} s, timing reference lasts {float(ref)} s', rp)
        for period, rep in doc.all_reps():
            key = (stream, rep.id)
            sf = self.index.files.get(key)
            if sf is None:
                res.count('rep.unknown_file')
                res.violation('representation-names-no-stored-media-file',
                              f'{url}: Representation id {rep.id!r} is not the name of a media file of stream {stream} '
                              f'({sorted(n for d, n in self.index.files if d == stream)})', rp)
                continue
            pd = period.duration if period.duration is not None else mpd_dur
            label = f'{url} rep {rep.id}'
            if rep.segment_list is not None:
                self.walk_ranges(rep, sf, key, label, rp)
                if rep.timeline is not None:
                    # on-demand profile: the timeline that accompanies the byte ranges describes
                    # the same stored segments, one entry each
                    res.count('odvod.timelines_compared')
                    stored = [s.duration for s in sf.segments]
                    listed = [e.d for e in rep.timeline]
                    if len(listed) != len(stored):
                        res.violation('on-demand-timeline-entry-count-differs-from-stored',
                                      f'{label}: SegmentTimeline lists {len(listed)} entries, the file holds '
                                      f'{len(stored)} segments', rp)
                    elif listed != stored:
                        i = next(i for i, (a, b) in enumerate(zip(listed, stored)) if a != b)
                        res.violation('on-demand-timeline-entry-duration-differs-from-stored',
                                      f'{label}: S[{i}]@d={listed[i]}, stored segment lasts {stored[i]}', rp)
            elif rep.timeline is not None:
                self.walk_timeline(rep, sf, key, label, rp, ref)
            elif rep.duration is not None and pd is not None:
                self.walk_numbers(rep, sf, key, label, rp, pd)
            else:
                res.count('rep.no_addressing')
                continue
            p = case['params']
            drm = 'drm' + '+'.join(sorted({x.split('-')[0] for x in p.get('drm', 'none').split(',')}))
            res.keys.add(f'{stream}|{case["manifest"]}|{case["mode"]}|'
                         f'{"list" if rep.segment_list else "tl" if rep.timeline else "num"}|{drm}|{rep.id}')
        if len(res.samples) < 4:
            res.samples.append({'url': url, 'reps': [r.id for _, r in doc.all_reps()]})

    # ------------------------------------------------------------------
    def chain(self, rep, sf, key, label, rp, fetched: list[tuple[str, bytes]]) -> None:
        """fetched: [(what, body)] in order -- gapless chain starting at the file's first decode time"""
        res = self.res
        expect = None
        first = self.index.stored_decode_time(key, 0)
        total = 0
        for i, (what, body) in enumerate(fetched):
            try:
                frag = ib.read_fragment(body)
            except Exception as err:
                res.violation('static-segment-not-well-formed', f'{label} {what}: {err}', rp)
                return
            if frag.tfdt is None:
                if self.index.stored_has_tfdt(key):
                    res.violation('static-segment-without-tfdt', f'{label} {what}', rp)
                    return
                # the stored file itself has no tfdt boxes (on-demand byte ranges serve it as it is):
                # decode times are implied by the running sum
                res.count('chain.segments_without_tfdt')
                tfdt = expect if expect is not None else first
            else:
                tfdt = frag.tfdt[1]
            dur = sum(ib.sample_durations(frag.trun, frag.tfhd, sf.trex))
            # the i-th enumerated segment carries the media of the i-th stored segment
            import hashlib
            ks = self.index.payload[key].get(hashlib.sha1(body[frag.mdat.body:frag.mdat.end]).digest(), [])
            res.count('chain.payloads_compared')
            if i not in ks:
                res.violation('static-segment-payload-is-not-the-stored-segment',
                              f'{label} {what}: entry {i} carries the payload of stored segment {[k + 1 for k in ks] or "none"} '
                              f'({frag.mdat.end - frag.mdat.body} bytes)', rp)
                return
            if i == 0 and tfdt != first:
                res.violation('static-first-segment-not-at-first-decode-time',
                              f'{label} {what}: tfdt {tfdt}, file starts at {first}', rp)
            if expect is not None and tfdt != expect:
                res.violation('static-segments-not-gapless',
                              f'{label} {what}: tfdt {tfdt}, previous segment ended at {expect}', rp)
            expect = tfdt + dur
            total += dur
        if total != sf.duration:
            res.violation('static-total-duration-differs-from-stored',
                          f'{label}: enumerated segments last {total} ticks, stored media {sf.duration} '
                          f'({len(fetched)} fetched, {len(sf.segments)} stored)', rp)

    def walk_numbers(self, rep, sf, key, label, rp, pd: Fraction) -> None:
        res = self.res
        res.count('walk.number')
        d = Fraction(rep.duration, rep.timescale)
        n_doc = ceil_frac(pd / d)
        stored = len(sf.segments)
        fetched = []
        ok = True
        for k in range(n_doc):
            n = rep.start_number + k
            r = self.get(rep.media_url(number=n))
            res.count('segment.requests')
            if r.status_code != 200:
                ok = False
                if k == stored and n_doc == stored + 1:
                    # the document's duration arithmetic enumerates one more (short) segment
                    # than the (shorter than the reference) track holds
                    mech = 'number-template-enumerates-one-segment-beyond-shorter-track'
                else:
                    mech = 'enumerated-number-not-retrievable'
                res.violation(mech, f'{label}: $Number$={n} (index {k} of {n_doc} enumerated by period duration '
                                    f'{float(pd)} s / {float(d)} s; {stored} stored) -> {r.status_code}', rp,
                              exception=self.env.rec.last_exception)
                break
            fetched.append((f'$Number$={n}', r.data))
        if fetched and (ok or len(fetched) == stored):
            self.chain(rep, sf, key, label, rp, fetched)
        # one past the end of the stored media
        n = rep.start_number + max(n_doc, stored)
        r = self.get(rep.media_url(number=n))
        res.count('past_end.checked')
        if r.status_code != 404:
            res.violation('segment-past-the-end-not-404', f'{label}: $Number$={n} -> {r.status_code}', rp,
                          exception=self.env.rec.last_exception)
        iu = rep.init_url()
        if iu:
            r = self.get(iu)
            if r.status_code != 200:
                res.violation('static-init-not-retrievable', f'{label}: {iu} -> {r.status_code}', rp)

    def walk_timeline(self, rep, sf, key, label, rp, ref) -> None:
        res = self.res
        res.count('walk.time')
        fetched = []
        stored = len(sf.segments)
        tl = rep.timeline
        for i in range(len(tl) - 1):
            if tl[i].t + tl[i].d != tl[i + 1].t:
                res.violation('static-timeline-gap', f'{label}: S[{i}]', rp)
                break
        for i, e in enumerate(tl):
            if rep.uses_time():
                u = rep.media_url(time=e.t)
                what = f'$Time$={e.t}'
            else:
                u = rep.media_url(number=rep.start_number + i, time=e.t)
                what = f'$Number$={rep.start_number + i}'
            r = self.get(u)
            res.count('segment.requests')
            if r.status_code != 200:
                if i >= stored:
                    mech = 'static-timeline-lists-entries-beyond-shorter-track'
                else:
                    mech = 'enumerated-timeline-entry-not-retrievable'
                res.violation(mech, f'{label}: {what} (entry {i} of {len(tl)}; {stored} stored) -> {r.status_code}', rp,
                              exception=self.env.rec.last_exception)
                break
            fetched.append((what, r.data))
            # the entry describes the segment it names: S@t is its decode time, S@d its samples
            try:
                frag = ib.read_fragment(r.data)
                res.count('timeline.entries_compared')
                if frag.tfdt is not None and frag.tfdt[1] != e.t:
                    res.violation('static-timeline-entry-time-differs-from-segment',
                                  f'{label}: {what}: S@t={e.t} but the segment has tfdt {frag.tfdt[1]}', rp)
                    break
                dur = sum(ib.sample_durations(frag.trun, frag.tfhd, sf.trex))
                if dur != e.d:
                    res.violation('static-timeline-entry-duration-differs-from-samples',
                                  f'{label}: {what}: S@d={e.d} but the samples of the segment last {dur} '
                                  f'(entry {i} of {len(tl)})', rp)
                    break
            except Exception:
                pass        # reported by chain() below
        if fetched:
            if len(fetched) > stored:
                res.violation('static-timeline-lists-entries-beyond-shorter-track',
                              f'{label}: {len(tl)} entries, {stored} stored segments', rp)
            else:
                self.chain(rep, sf, key, label, rp, fetched)
        # past the end
        if tl:
            end = tl[-1].t + tl[-1].d
            if rep.uses_time():
                r = self.get(rep.media_url(time=end + sf.segments[-1].duration))
                res.count('past_end.checked')
                if r.status_code != 404:
                    res.violation('segment-past-the-end-not-404',
                                  f'{label}: $Time$={end + sf.segments[-1].duration} -> {r.status_code}', rp,
                                  exception=self.env.rec.last_exception)

    def walk_ranges(self, rep, sf, key, label, rp) -> None:
        res = self.res
        res.count('walk.ranges')
        sl = rep.segment_list
        data = self.index.data[key]
        url = rep.base_url
        if sl['init'] is None or not sl['media']:
            res.violation('segment-list-incomplete', f'{label}', rp)
            return
        a, b = sl['init']
        pos = b + 1
        if a != 0:
            res.violation('init-range-does-not-start-at-zero', f'{label}: {a}-{b}', rp)
        # the init range must be whole boxes containing moov and no moof
        try:
            boxes = ib.parse_boxes(data, a, b + 1)
            types = [x.type for x in boxes]
            if b'moov' not in types or b'moof' in types:
                res.violation('init-range-not-an-init-segment', f'{label}: {types}', rp)
        except ib.BoxError as err:
            res.violation('init-range-not-whole-boxes', f'{label}: {err}', rp)
        fetched = []
        for i, (s, e) in enumerate(sl['media']):
            if s != pos:
                res.violation('byte-ranges-do-not-tile-the-file',
                              f'{label}: range {i} starts at {s}, previous ended at {pos - 1}', rp)
            pos = e + 1
            if e >= len(data) or e < s:
                res.violation('byte-range-outside-file', f'{label}: {s}-{e} of {len(data)}', rp)
                continue
            try:
                boxes = ib.parse_boxes(data, s, e + 1)
                types = [x.type for x in boxes]
                if types.count(b'moof') != 1 or types.count(b'mdat') != 1 or \
                        types[0] not in (b'styp', b'sidx', b'emsg', b'moof'):
                    res.violation('byte-range-not-one-segment', f'{label}: range {i} holds {types}', rp)
            except ib.BoxError as err:
                res.violation('byte-range-not-on-box-boundaries', f'{label}: range {i} {s}-{e}: {err}', rp)
            r = self.get(url, headers={'Range': f'bytes={s}-{e}'})
            res.count('segment.requests')
            if r.status_code != 206 or r.data != data[s:e + 1]:
                res.violation('ranged-body-differs-from-stored-bytes',
                              f'{label}: bytes={s}-{e} -> {r.status_code}, {len(r.data)} bytes', rp)
                continue
            fetched.append((f'range {s}-{e}', r.data))
        if pos != len(data):
            res.violation('byte-ranges-do-not-tile-the-file',
                          f'{label}: last range ends at {pos - 1}, file has {len(data)} bytes', rp)
        r = self.get(url, headers={'Range': f'bytes={a}-{b}'})
        if r.status_code != 206 or r.data != data[a:b + 1]:
            res.violation('ranged-body-differs-from-stored-bytes', f'{label}: init bytes={a}-{b} -> {r.status_code}', rp)
        if len(fetched) == len(sl['media']):
            self.chain(rep, sf, key, label, rp, fetched)
        res.count('past_end.checked')
        r = self.get(url, headers={'Range': f'bytes={len(data)}-{len(data) + 100}'})
        if r.status_code not in (416, 404):
            res.violation('range-past-the-end-not-refused', f'{label}: -> {r.status_code}', rp)


def gen_case(ctx: ShardCtx, streams: dict) -> dict:
    from dlv import workload as W
    from dlv.livewalk import TIMELINE_TEMPLATES, DRM_TEMPLATES
    rng = ctx.rng
    stream = rng.choice(list(streams))
    manifest, mode = rng.choice(VOD_TEMPLATES)
    if stream == 'sy9':
        # Representations numbered from different start numbers: only a template per Representation
        # (manifest_ef.mpd) or byte ranges (on-demand profile) can describe them
        manifest, mode = rng.choice([('manifest_ef.mpd', 'vod'), ('hand_made.mpd', 'odvod')])
    p: dict[str, str] = {}
    if manifest in TIMELINE_TEMPLATES and rng.random() < 0.5:
        p['timeline'] = '1'
    if manifest in DRM_TEMPLATES and streams[stream].get('encrypted') and mode != 'odvod':
        sel = W.drm_selection(rng)
        if sel:
            p['drm'] = sel
    if rng.random() < 0.3:
        p['abr'] = rng.choice(['0', '1'])
    if rng.random() < 0.3:
        p['acodec'] = rng.choice(['mp4a', 'ec-3', 'any'])
    if rng.random() < 0.3:
        p['base'] = rng.choice(['0', '1'])
    if rng.random() < 0.15 and manifest in ('hand_made.mpd', 'manifest_n.mpd'):
        p['events'] = rng.choice(['ping', 'scte35'])
    if rng.random() < 0.2:
        # live-only options must be ignored by static manifests
        p[rng.choice(['depth', 'mup', 'start', 'leeway'])] = rng.choice(['30', '4', 'epoch', '0'])
    now = W.calendar_instants(rng)
    return {'stream': stream, 'manifest': manifest, 'mode': mode, 'params': p, 'now': now.isoformat()}


def run_shard(ctx: ShardCtx) -> ShardResult:
    from dlv.checks import c01
    from dlv.reach import Reach
    res = ShardResult()
    env, index, refs = c01.build_env(ctx, res)
    try:
        reach = Reach([
            ('dashlive.mpeg.dash.representation', 'Representation.generateSegmentList'),
            ('dashlive.mpeg.dash.representation', 'Representation.generateSegmentTimeline'),
            ('dashlive.mpeg.dash.representation', 'Representation.calculate_segment_number_and_time'),
            ('dashlive.mpeg.dash.timing', 'DashTiming.calculate_vod_params'),
            ('dashlive.server.requesthandler.media_requests', 'OnDemandMedia.get'),
        ])
        walk = StaticWalk(env, res, index, refs)
        streams = c01.stream_info(env, index, refs)
        if ctx.replay:
            walk.run_case(ctx.replay['replay']['case'])
        else:
            for i in range(ctx.scale(10**6, 10**7)):
                walk.run_case(gen_case(ctx, streams))
                if ctx.out_of_time():
                    break
        reach.report(res)
    finally:
        env.close()
    return res
