"""C08 -- live timing parameters are coherent for every clock and option.

Post-condition monitor attached from outside to the real DashTiming.__init__ (the class
uses __slots__, so a wrapper is installed on the class): every object constructed -- by the
direct driver here and, through the same wrapper, by real HTTP manifest/segment requests --
is checked with exact datetime/Fraction arithmetic.  An offline history checker decides
publishTime monotonicity and the day-stability of symbolic start values over sorted
sequences of instants.
"""
from __future__ import annotations

import datetime
from fractions import Fraction

from dlv.core import ShardCtx, ShardResult

PROPERTY = 'C08'
LEVEL = 'exploration'
RULE = ('tuples (now, start, depth, mup, reference segment duration/timescale): now from calendar-boundary, '
        'phase-grid and random generators (first seconds of day/month/year, leap day, 31 Dec 23:59:59.999999); start in '
        '{epoch,today,month,year,now,absent} or explicit ISO instants <= now with UTC offsets and fractional seconds; depth in '
        'boundary set; mup in {absent, <=0, 1..3600}. Histories: 3..12 increasing instants per option set, incl. midnight '
        'crossings. Also every DashTiming built by real manifest requests (HTTP layer). distinct = (start kind, depth class, '
        'mup class, young/old, calendar class, layer).')
ASSUMPTIONS = [
    'post-condition evaluated on the real object right after the real __init__ returns (wrapper on the class)',
    'manifest attributes are compared with the captured object for the HTTP-layer cases',
    'explicit start values are <= now (the quantified domain); future starts are not generated',
]
REQUIRED_COUNTERS = ['post.live', 'post.http_layer', 'history.pairs', 'history.day_stability_pairs',
                     'reach.calculate_live_params', 'reach.ast_from_string']

UTC = datetime.timezone.utc
ONE_S = datetime.timedelta(seconds=1)


def shards(tier: str) -> int:
    return 16


def td_fraction(td: datetime.timedelta) -> Fraction:
    return Fraction(td.days * 86400 + td.seconds) + Fraction(td.microseconds, 10**6)


class Monitor:
    """Wraps DashTiming.__init__; records every live object it sees and checks the
    per-object clauses immediately (record-and-continue)."""

    def __init__(self, res: ShardResult) -> None:
        self.res = res
        self.layer = 'direct'
        self.context: dict = {}
        self.last = None
        self.effective_now = None
        from dashlive.mpeg.dash import timing as tmod
        self.tmod = tmod
        self.orig = tmod.DashTiming.__init__
        monitor = self

        def wrapped(obj, now, stream_ref, options):
            monitor.orig(obj, now, stream_ref, options)
            monitor.observe(obj, now, options)
        wrapped.__wrapped__ = self.orig
        tmod.DashTiming.__init__ = wrapped

    def uninstall(self) -> None:
        self.tmod.DashTiming.__init__ = self.orig

    def observe(self, t, now, options) -> None:
        res = self.res
        self.last = t
        if self.layer == 'http' and self.effective_now is not None:
            # drift=N asks for the manifest as it was N seconds ago: whoever applies the drift, the object
            # a manifest request builds must be coherent for that instant
            now = self.effective_now
        if t.mode != 'live':
            res.count('post.static')
            return
        res.count('post.live')
        if self.layer == 'http':
            res.count('post.http_layer')
        start_opt = getattr(options, 'availabilityStartTime', None)
        symbolic = isinstance(start_opt, str)
        ctx = {'layer': self.layer, 'now': now.isoformat(), 'start': str(start_opt),
               'depth': getattr(options, 'timeShiftBufferDepth', None),
               'mup': getattr(options, 'minimumUpdatePeriod', None), **self.context}
        ast, pub = t.availabilityStartTime, t.publishTime

        def bad(mech, msg):
            res.violation(mech, f'{msg} | now={now.isoformat()} start={start_opt} depth={ctx["depth"]} '
                                f'mup={ctx["mup"]} -> AST={ast} publishTime={pub} TSBD={t.timeShiftBufferDepth} '
                                f'elapsed={t.elapsedTime} first={t.firstAvailableTime} [{self.layer}]',
                          {'timing_case': ctx})
        def start_class() -> str:
            # the recorded finding is about a REQUESTED explicit start with a fractional second; a
            # symbolic start (now, today, ...) must resolve to a whole second whatever the clock says
            if symbolic or start_opt is None:
                return 'symbolic-start-resolved-to-fraction' if ast.microsecond else 'whole-start'
            return 'fractional-start' if getattr(start_opt, 'microsecond', 0) else 'whole-start'

        if ast is None:
            bad('live-timing-without-availability-start', 'availabilityStartTime is None')
            return
        if ast > now:
            bad('availability-start-after-now', 'availabilityStartTime > now')
        if pub.microsecond != 0:
            bad('publish-time-not-whole-second', 'publishTime has a fractional second')
        if pub > now:
            bad('publish-time-after-now', 'publishTime > now')
        if pub < ast:
            bad(f'publish-time-before-availability-start-{start_class()}', 'publishTime < availabilityStartTime')
        elapsed = now - ast
        tsbd = t.timeShiftBufferDepth
        if not isinstance(tsbd, int) or tsbd < 0:
            bad('time-shift-buffer-depth-negative', f'timeShiftBufferDepth = {tsbd!r}')
        elif datetime.timedelta(seconds=tsbd) > elapsed:
            bad('time-shift-buffer-depth-exceeds-elapsed', 'timeShiftBufferDepth > now - availabilityStartTime')
        if t.elapsedTime != elapsed:
            bad('elapsed-time-wrong', f'elapsedTime {t.elapsedTime} != now - AST {elapsed}')
        if isinstance(tsbd, int):
            want_first = elapsed - datetime.timedelta(seconds=tsbd)
            if t.firstAvailableTime != want_first:
                bad('first-available-time-wrong', f'firstAvailableTime != now - AST - TSBD ({want_first})')
            if t.firstAvailableTime < datetime.timedelta(0):
                bad('first-available-time-negative', 'firstAvailableTime < 0')
        p = t.minimumUpdatePeriod
        if p is not None:
            if p <= 0:
                bad('minimum-update-period-not-positive', f'minimumUpdatePeriod = {p!r}')
            else:
                off = td_fraction(pub - ast)
                if off % p != 0:
                    bad(f'publish-time-not-on-update-period-grid-{start_class()}',
                        f'(publishTime - AST) = {float(off)} s is not a multiple of {p}')
                if td_fraction(now - pub) >= p + 1:
                    bad('publish-time-lags-too-far', f'now - publishTime = {float(td_fraction(now - pub))} >= {p} + 1')
        if symbolic:
            if elapsed < datetime.timedelta(seconds=60):
                bad('symbolic-start-younger-than-one-minute', f'now - AST = {elapsed}')
            if start_opt == 'now':
                if not (datetime.timedelta(seconds=60) <= elapsed < datetime.timedelta(seconds=61)):
                    bad('start-now-not-60s-behind', f'now - AST = {elapsed}')


def gen_now(rng):
    from dlv.workload import calendar_instants
    return calendar_instants(rng)


class Opts:
    """Real OptionsContainer built through the real option parser."""

    def __init__(self):
        from dashlive.server.options.repository import OptionsRepository
        self.repo = OptionsRepository
        self.defaults = OptionsRepository.get_default_options()

    def make(self, params: dict):
        o = self.repo.convert_cgi_options(params, self.defaults)
        o.add_field('mode', 'live')
        return o


def run_direct(ctx: ShardCtx, res: ShardResult, mon: Monitor) -> None:
    from dashlive.mpeg.dash.reference import StreamTimingReference
    from dlv.workload import isoz, segment_phase_offsets
    DashTiming = mon.tmod.DashTiming
    rng = ctx.rng
    opts = Opts()
    refs = [StreamTimingReference('v', 9600, 10, 960, 240), StreamTimingReference('a', 1763328, 10, 176332, 44100),
            StreamTimingReference('t', 8000, 4, 2000, 200), StreamTimingReference('x', 90000 * 7, 3, 90000 * 2, 90000),
            StreamTimingReference('y', 1001 * 30, 15, 2002, 1000),
            # short segments (low-latency packaging): 0.2 s and 0.5 s
            StreamTimingReference('z', 2400, 50, 48, 240), StreamTimingReference('w', 9000 * 20, 20, 45000, 90000)]
    n = ctx.scale(40000, 1200000)
    for i in range(n):
        ref = rng.choice(refs)
        seg_s = ref.segment_duration / ref.timescale
        now = gen_now(rng)
        params = {}
        kind = rng.random()
        if kind < 0.5:
            start = rng.choice(['epoch', 'today', 'month', 'year', 'now', None])
            if start:
                params['start'] = start
            skind = start or 'absent'
        else:
            delta = segment_phase_offsets(rng, seg_s, ref.media_duration / ref.timescale)
            ast = now - datetime.timedelta(seconds=delta)
            r = rng.random()
            if r < 0.6:
                ast = ast.replace(microsecond=0)
                skind = 'iso-whole'
            else:
                skind = 'iso-fraction'
            if ast > now:
                ast = now
            if ast.year < 1971:
                ast = ast.replace(year=1971)
            if rng.random() < 0.3:
                tz = datetime.timezone(datetime.timedelta(minutes=rng.choice([60, -300, 330, 765, -720])))
                params['start'] = ast.astimezone(tz).isoformat()
                skind += '-offset'
            else:
                params['start'] = isoz(ast)
        d = rng.random()
        if d < 0.7:
            depth = rng.choice([0, 1, 2, 4, 7, 8, 16, 30, 59, 60, 61, 120, 1800, 86400, 2**31])
            params['depth'] = str(depth)
        elif d < 0.78:
            depth = rng.choice([-1, -5, -60])
            params['depth'] = str(depth)
        else:
            depth = None
        m = rng.random()
        if m < 0.6:
            mup = rng.choice([-1, 0, 1, 2, 3, 4, 7, 8, 30, 59, 60, 61, 3600, rng.randrange(1, 3601)])
            params['mup'] = str(mup)
        elif m < 0.68:
            # not a whole number of seconds: either refused, or honoured as it is written
            mup = rng.choice([2.5, 7.68, 0.5, 4.0, 1.001])
            params['mup'] = str(mup)
        else:
            mup = None
        try:
            o = opts.make(params)
        except ValueError:
            res.count('direct.options_refused')
            continue
        mon.context = {'params': params, 'ref': [ref.media_duration, ref.num_media_segments, ref.segment_duration, ref.timescale]}
        try:
            t = DashTiming(now, ref, o)
        except Exception as err:
            res.evaluations += 1
            res.violation(f'live-timing-construction-raises-{type(err).__name__}',
                          f'DashTiming(now={now.isoformat()}, reference segment {ref.segment_duration}/{ref.timescale} s, '
                          f'{params}) raised {err!r}', {'timing_case': {'now': now.isoformat(), **mon.context}})
            continue
        res.evaluations += 1
        young = (now - t.availabilityStartTime) < datetime.timedelta(seconds=120) if t.availabilityStartTime else False
        cal = 'first-minute' if (now.hour == 0 and now.minute == 0) else ('day1' if now.day == 1 else 'mid')
        res.keys.add(f'direct|{skind}|d{"neg" if depth is not None and depth < 0 else ("none" if depth is None else ("0" if depth == 0 else "pos"))}'
                     f'|m{"none" if mup is None else ("off" if mup <= 0 else "pos")}|{"young" if young else "old"}|{cal}')
        if len(res.samples) < 4:
            res.samples.append({'now': now.isoformat(), 'params': params, 'AST': str(t.availabilityStartTime),
                                'publishTime': str(t.publishTime), 'TSBD': t.timeShiftBufferDepth})
        if i % 2000 == 0 and ctx.out_of_time():
            break


def run_histories(ctx: ShardCtx, res: ShardResult, mon: Monitor) -> None:
    from dashlive.mpeg.dash.reference import StreamTimingReference
    from dlv.workload import isoz
    DashTiming = mon.tmod.DashTiming
    rng = ctx.rng
    opts = Opts()
    ref = StreamTimingReference('v', 9600, 10, 960, 240)
    n = ctx.scale(3000, 100000)
    for i in range(n):
        base = gen_now(rng)
        if rng.random() < 0.4:
            # aim at a midnight / first-minute crossing
            base = base.replace(hour=23, minute=59, second=rng.randrange(50, 60)) \
                if rng.random() < 0.5 else base.replace(hour=0, minute=0, second=rng.randrange(50, 60))
        start = rng.choice(['epoch', 'today', 'month', 'year', 'now', 'iso', 'iso', None])
        params = {}
        if start == 'iso':
            ast = (base - datetime.timedelta(seconds=rng.choice([0, 1, 30, 61, 3600, 86400 * 3]))).replace(microsecond=0)
            params['start'] = isoz(ast)
        elif start:
            params['start'] = start
        if rng.random() < 0.7:
            params['mup'] = str(rng.choice([1, 2, 4, 7, 8, 13, 30, 60, 61, 3600, -1]))
        if rng.random() < 0.5:
            params['depth'] = str(rng.choice([4, 30, 60, 1800]))
        o = opts.make(params)
        steps = rng.randrange(3, 13)
        now = base
        seq = []
        for _ in range(steps):
            mon.context = {'params': params, 'history': True}
            t = DashTiming(now, ref, o)
            seq.append((now, t.availabilityStartTime, t.publishTime))
            now = now + datetime.timedelta(seconds=rng.choice([0.001, 0.5, 1, 1, 2, 4, 7, 10, 59, 60, 61, 3600]))
        res.evaluations += 1
        for (n1, a1, p1), (n2, a2, p2) in zip(seq, seq[1:]):
            res.count('history.pairs')
            crossing = 'same-ast' if a1 == a2 else 'ast-changed'
            if p2 < p1:
                res.violation(f'publish-time-decreases-{crossing}',
                              f'start={params.get("start")} mup={params.get("mup")}: now {n1.isoformat()} -> {n2.isoformat()} '
                              f'publishTime {p1} -> {p2} (AST {a1} -> {a2})',
                              {'history': {'params': params, 'nows': [s[0].isoformat() for s in seq]}})
            if a2 < a1:
                res.violation('availability-start-decreases',
                              f'start={params.get("start")}: AST {a1} -> {a2} for now {n1.isoformat()} -> {n2.isoformat()}',
                              {'history': {'params': params, 'nows': [s[0].isoformat() for s in seq]}})
            # day-stability: same UTC day, both after its first minute
            if params.get('start', 'year') in ('epoch', 'today', 'month', 'year') and n1.date() == n2.date() \
                    and (n1.hour, n1.minute) != (0, 0) and (n2.hour, n2.minute) != (0, 0):
                res.count('history.day_stability_pairs')
                if a1 != a2:
                    res.violation('symbolic-start-not-stable-within-day',
                                  f'start={params.get("start")}: {n1.isoformat()} -> {a1} but {n2.isoformat()} -> {a2}',
                                  {'history': {'params': params, 'nows': [s[0].isoformat() for s in seq]}})
        res.keys.add(f'history|{start}|m{params.get("mup")}|x{int(seq[0][1] != seq[-1][1])}')
        if i % 500 == 0 and ctx.out_of_time():
            break


def run_http(ctx: ShardCtx, res: ShardResult, mon: Monitor) -> None:
    """The same post-condition on objects built by real requests, and manifest attributes
    compared with the captured object."""
    from dlv.appenv import AppEnv
    from dlv import workload as W
    from dlv.livewalk import LIVE_TEMPLATES, TIMELINE_TEMPLATES, qs
    from dlv.oracles import mpd as M
    env = AppEnv()
    try:
        env.add_fixture_stream('bbb', only={'bbb_v7', 'bbb_a1', 'bbb_t1'})
        mon.layer = 'http'
        client = env.client()
        n = ctx.scale(150, 6000)
        for i in range(n):
            manifest = ctx.rng.choice(LIVE_TEMPLATES)
            params, now = W.live_params(ctx.rng, manifest, manifest in TIMELINE_TEMPLATES, False,
                                        allow_events=False)
            params.pop('patch', None)
            env.clock.set(now)
            drift = 0
            if ctx.rng.random() < 0.3:
                drift = ctx.rng.choice([5, 10, 30, 59, 61, 90, 3600, -3])
                params['drift'] = str(drift)
            mon.effective_now = now - datetime.timedelta(seconds=drift)
            mon.context = {'params': params, 'manifest': manifest}
            mon.last = None
            url = f'/dash/live/bbb/{manifest}' + qs(params)
            r = env.get(url, client=client)
            res.evaluations += 1
            if r.status_code != 200 or mon.last is None:
                continue
            t = mon.last
            try:
                doc = M.parse_mpd(r.data, 'http://localhost' + url)
            except Exception:
                continue
            res.count('http.manifests_compared')
            rp = {'http_case': {'url': url, 'now': now.isoformat()}}
            try:
                ast, pub = doc.dt('availabilityStartTime'), doc.dt('publishTime')
                depth, mup = doc.dur('timeShiftBufferDepth'), doc.dur('minimumUpdatePeriod')
            except Exception as err:
                res.violation('manifest-timing-attribute-not-readable',
                              f'{url}: {type(err).__name__}: {err} (object: AST {t.availabilityStartTime} publishTime '
                              f'{t.publishTime} TSBD {t.timeShiftBufferDepth})', rp)
                continue
            if ast is not None and ast != t.availabilityStartTime:
                res.violation('manifest-availability-start-differs-from-timing',
                              f'{url}: MPD@availabilityStartTime {ast} vs {t.availabilityStartTime}', rp)
            if pub is not None and pub != t.publishTime:
                res.violation('manifest-publish-time-differs-from-timing',
                              f'{url}: MPD@publishTime {pub} vs {t.publishTime}', rp)
            if depth is not None and depth != t.timeShiftBufferDepth:
                res.violation('manifest-time-shift-buffer-depth-differs-from-timing',
                              f'{url}: MPD@timeShiftBufferDepth {depth} vs {t.timeShiftBufferDepth}', rp)
            # a template that does not support update periods simply omits the attribute
            if mup is not None and mup != t.minimumUpdatePeriod:
                res.violation('manifest-minimum-update-period-differs-from-timing',
                              f'{url}: MPD@minimumUpdatePeriod {mup} vs {t.minimumUpdatePeriod}', rp)
            res.keys.add(f'http|{manifest}|{params.get("start", "dflt") if params.get("start", "dflt")[0].isalpha() else "iso"}')
            if i % 50 == 0 and ctx.out_of_time():
                break
    finally:
        mon.layer = 'direct'
        env.close()


def run_shard(ctx: ShardCtx) -> ShardResult:
    from dlv.reach import Reach
    res = ShardResult()
    mon = Monitor(res)
    reach = Reach([('dashlive.mpeg.dash.timing', 'DashTiming.calculate_live_params'),
                   ('dashlive.server.options.manifest_options', 'ast_from_string')])
    try:
        if ctx.replay:
            r = ctx.replay['replay']
            if 'timing_case' in r and 'params' in r['timing_case']:
                from dashlive.mpeg.dash.reference import StreamTimingReference
                c = r['timing_case']
                ref = c.get('ref', [9600, 10, 960, 240])
                o = Opts().make(c['params'])
                mon.tmod.DashTiming(datetime.datetime.fromisoformat(c['now']),
                                    StreamTimingReference('r', *ref), o)
            res.evaluations += 1
        else:
            ctx.budget_s *= 0.45
            run_direct(ctx, res, mon)
            ctx.budget_s /= 0.45
            ctx.budget_s *= 0.7
            run_histories(ctx, res, mon)
            ctx.budget_s /= 0.7
            run_http(ctx, res, mon)
        reach.report(res)
    finally:
        mon.uninstall()
    return res
