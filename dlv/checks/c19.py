"""C19 -- ISO-8601 time text is faithful to the value it encodes.

Differential monitor on the real formatting/parsing functions of
dashlive.utils.date_time (and the template filters that wrap them) against an
independent exact-rational reader of xs:duration / xs:dateTime text.
"""
from __future__ import annotations

import datetime
import re
from fractions import Fraction

from dlv.core import ShardCtx, ShardResult

PROPERTY = 'C19'
LEVEL = 'exploration'
RULE = ('durations: every microsecond fraction 0..999999 (all 10^6 when the budget allows - counter dur.fractions_swept - otherwise an evenly scattered subset) x whole-second '
        'parts (quick: 6, thorough: 14) x input kind {float,str,timedelta}, plus random magnitudes up '
        'to 50 years; date-times: years 2..9998, UTC offsets -14:00..+14:00 in 15 min steps x microsecond grid + random; '
        'tick conversions: (timecode, timescale) with timescale 1..10^7. distinct_nontrivial counts '
        'distinct (function, input-kind, whole-part / carry-class / offset / timescale-bucket) classes '
        'in which the oracle compared a value that exercises rounding (non-zero fraction).')
ASSUMPTIONS = [
    'oracle: own regex + fractions.Fraction reader of xs:duration/xs:dateTime text (no dashlive code)',
    'tolerance for float inputs: 0.5 ms + 1e-9 s (double rounding of the input value itself)',
    'xs:duration validity as the statement defines it: seconds < 60 and minutes < 60, carries propagate',
]
REQUIRED_COUNTERS = ['dur.compared', 'dt.compared', 'tick.compared']
EXHAUSTIVE = {'quick': False, 'thorough': False}

XS_DURATION = re.compile(
    r'^P(?:(\d+)Y)?(?:(\d+)M)?(?:(\d+)D)?(?:T(?:(\d+)H)?(?:(\d+)M)?(?:(\d+(?:\.\d+)?)S)?)?$')
XS_DATETIME = re.compile(
    r'^(-?\d{4,})-(\d\d)-(\d\d)T(\d\d):(\d\d):(\d\d)(?:\.(\d+))?(Z|[+-]\d\d:\d\d)?$')
HALF_MS = Fraction(1, 2000)


def shards(tier: str) -> int:
    return 16


def parse_xs_duration(text: str):
    """-> (Fraction seconds, hours, minutes, Fraction secs-field) or None when not lexically valid."""
    m = XS_DURATION.match(text)
    if not m or text in ('P', 'PT') or text.endswith('T'):
        return None
    y, mo, d, h, mi, s = m.groups()
    if y or mo:
        return None  # never expected from the formatter
    total = Fraction(0)
    total += int(d or 0) * 86400
    total += int(h or 0) * 3600
    total += int(mi or 0) * 60
    sf = Fraction(s) if s else Fraction(0)
    total += sf
    return total, int(h or 0), int(mi or 0), sf


def check_duration(res: ShardResult, fn, value, exact: Fraction, kind: str, tol: Fraction,
                   from_iso, whole_key) -> None:
    text = fn(value)
    res.count('dur.compared')
    parsed = parse_xs_duration(text)
    frac = exact - (exact.numerator // exact.denominator)
    carry_class = 'carry' if frac >= Fraction(9995, 10000) else ('frac' if frac else 'whole')
    if frac:
        res.keys.add(f'dur:{fn.__name__}:{kind}:{whole_key}:{carry_class}')
    replay = {'op': 'duration', 'fn': fn.__name__, 'kind': kind, 'value': repr(value)}
    if parsed is None:
        res.violation('duration-text-not-xs-duration',
                      f'{fn.__name__}({value!r}) = {text!r} is not a valid xs:duration', replay)
        return
    total, hours, mins, secs = parsed
    if secs >= 60 or mins >= 60:
        res.violation('duration-field-not-below-60',
                      f'{fn.__name__}({value!r}) = {text!r}: seconds/minutes field >= 60', replay)
    if abs(total - exact) > tol:
        mech = 'duration-rounding-carry-lost' if carry_class == 'carry' else 'duration-value-off'
        res.violation(mech,
                      f'{fn.__name__}({value!r}) = {text!r} reads back as {float(total)!r} s, '
                      f'|delta| = {float(abs(total - exact)) * 1000:.4f} ms > 0.5 ms', replay)
    # and the repository's own parser must agree with the text too
    try:
        back = from_iso(text)
        back_exact = Fraction(back.days * 86400 + back.seconds) + Fraction(back.microseconds, 10**6)
        res.count('dur.parsed_back')
        if abs(back_exact - exact) > tol + Fraction(1, 10**6):
            mech = ('duration-rounding-carry-lost' if carry_class == 'carry'
                    else 'duration-parse-back-off')
            res.violation(mech,
                          f'from_isodatetime({text!r}) = {back!r}, {float(abs(back_exact - exact)) * 1000:.4f} ms '
                          f'from the original {value!r}', replay)
    except Exception as err:  # the formatter's own output must parse
        res.violation('duration-parse-back-raises',
                      f'from_isodatetime({text!r}) raised {err!r} (text from {fn.__name__}({value!r}))', replay)


def run_durations(ctx: ShardCtx, res: ShardResult, dt_mod, tags) -> None:
    to_iso = dt_mod.toIsoDuration
    from_iso = dt_mod.from_isodatetime
    filt = tags.isoDuration
    if ctx.tier == 'quick':
        wholes = [0, 1, 59, 3599, 86399, 10**7]
    else:
        wholes = [0, 1, 2, 58, 59, 60, 119, 3540, 3599, 3600, 86399, 86400, 10**7, 1576800000]
    # every microsecond fraction, split between shards and visited in a scattered order
    # (k * 7919 mod 10^6 is a permutation), so that a run that is cut short by the time
    # budget on a loaded machine still covers the whole range evenly
    for k in range(ctx.shard, 10**6, ctx.nshards):
        us = (k * 7919) % 10**6
        for idx, w in enumerate(wholes):
            exact = Fraction(w) + Fraction(us, 10**6)
            # rotate the input kind so each (us, whole) is seen in one kind per run
            # and all three kinds over neighbouring microseconds
            kind = (k // ctx.nshards + idx) % 3
            if kind == 0:
                td = datetime.timedelta(seconds=w, microseconds=us)
                # total_seconds() is itself a double: compare against what the caller passed
                check_duration(res, to_iso, td, exact, 'timedelta', HALF_MS + Fraction(1, 10**9),
                               from_iso, w)
            elif kind == 1:
                f = w + us / 1e6
                check_duration(res, to_iso, f, Fraction(f), 'float', HALF_MS + Fraction(1, 10**9),
                               from_iso, w)
            else:
                s = f'{w}.{us:06d}'
                check_duration(res, to_iso, s, exact, 'str', HALF_MS + Fraction(1, 10**9),
                               from_iso, w)
            res.evaluations += 1
        res.count('dur.fractions_swept')
        if (k // ctx.nshards) % 4096 == 0 and ctx.out_of_time():
            res.notes.append('microsecond fraction sweep cut short by the time budget (coverage stays evenly spread)')
            break
    # template filter + random magnitudes up to 50 years
    n = ctx.scale(20000, 400000)
    rng = ctx.rng
    for i in range(n):
        mag = rng.choice([60, 3600, 86400, 86400 * 366, 86400 * 365 * 50])
        w = rng.randrange(mag)
        us = rng.choice([0, 1, 499, 500, 501, 999499, 999500, 999501, 999999, rng.randrange(10**6)])
        exact = Fraction(w) + Fraction(us, 10**6)
        kind = i % 3
        fn = filt if i % 2 else to_iso
        if kind == 0:
            check_duration(res, fn, datetime.timedelta(seconds=w, microseconds=us), exact,
                           'timedelta', HALF_MS + Fraction(1, 10**9), from_iso, f'mag{mag}')
        elif kind == 1:
            f = w + us / 1e6
            check_duration(res, fn, f, Fraction(f), 'float', HALF_MS + Fraction(1, 10**9),
                           from_iso, f'mag{mag}')
        else:
            check_duration(res, fn, f'{w}.{us:06d}', exact, 'str', HALF_MS + Fraction(1, 10**9),
                           from_iso, f'mag{mag}')
        res.evaluations += 1
        if len(res.samples) < 3:
            res.samples.append({'op': 'toIsoDuration', 'whole_s': w, 'us': us,
                                'text': to_iso(datetime.timedelta(seconds=w, microseconds=us))})


def run_datetimes(ctx: ShardCtx, res: ShardResult, dt_mod, tz_mod, tags) -> None:
    rng = ctx.rng
    to_iso = dt_mod.to_iso_datetime
    from_iso = dt_mod.from_isodatetime
    offsets = list(range(-14 * 60, 14 * 60 + 1, 15))
    us_grid = [0, 1, 9, 10, 99, 100, 999, 1000, 123456, 499999, 500000, 500001, 999000, 999990, 999999]
    n_random = ctx.scale(30000, 600000)
    cases = []
    for k, off in enumerate(offsets):
        if k % ctx.nshards != ctx.shard:
            continue
        for us in us_grid:
            cases.append((off, us, None))
    for _ in range(n_random):
        cases.append((rng.choice(offsets), rng.choice(us_grid + [rng.randrange(10**6)] * 3), rng))
    boundaries = [
        (1970, 1, 1, 0, 0, 0), (2024, 2, 29, 23, 59, 59), (2023, 12, 31, 23, 59, 59),
        (2000, 1, 1, 0, 0, 0), (2038, 1, 19, 3, 14, 7), (1999, 12, 31, 12, 0, 1)]
    for i, (off, us, r) in enumerate(cases):
        if r is None:
            y, mo, d, h, mi, s = boundaries[i % len(boundaries)]
        else:
            y, mo, d = rng.randrange(1971, 2100), rng.randrange(1, 13), rng.randrange(1, 29)
            if rng.random() < 0.2:
                # any year a datetime can hold (the text has a four digit, zero padded year)
                y = rng.choice([rng.randrange(2, 100), rng.randrange(100, 1000), rng.randrange(1000, 1971),
                                rng.randrange(2100, 9999), 2, 99, 100, 9998])
            h, mi, s = rng.randrange(24), rng.randrange(60), rng.randrange(60)
        if off == 0 and i % 3 == 0:
            tz = tz_mod.UTC()
        elif i % 3 == 1:
            tz = datetime.timezone(datetime.timedelta(minutes=off))
        else:
            sign = '-' if off < 0 else '+'
            tz = tz_mod.FixedOffsetTimeZone(f'{sign}{abs(off) // 60:02d}:{abs(off) % 60:02d}')
        value = datetime.datetime(y, mo, d, h, mi, s, us, tzinfo=tz)
        fn = tags.isoDateTime if i % 2 else to_iso
        text = fn(value)
        res.evaluations += 1
        res.count('dt.compared')
        if us:
            res.keys.add(f'dt:{fn.__name__}:off{off}:{"us" if us % 1000 else "ms"}')
        replay = {'op': 'datetime', 'fn': fn.__name__, 'value': value.isoformat(), 'offset_min': off}
        m = XS_DATETIME.match(text)
        if not m:
            res.violation('datetime-text-not-xs-datetime',
                          f'{fn.__name__}({value!r}) = {text!r} is not a valid xs:dateTime', replay)
            continue
        # independent reading of the text
        yy, mm, dd, hh, mn, ss, frac, zone = m.groups()
        t_us = int((frac or '0').ljust(6, '0')[:6]) if frac is not None else 0
        if frac is not None and len(frac) > 6 and int(frac[6:]):
            t_us = -1
        if zone in (None, 'Z'):
            t_off = 0
        else:
            t_off = (int(zone[1:3]) * 60 + int(zone[4:6])) * (-1 if zone[0] == '-' else 1)
        read = (int(yy), int(mm), int(dd), int(hh), int(mn), int(ss), t_us, t_off)
        want = (y, mo, d, h, mi, s, us, off)
        if read != want:
            res.violation('datetime-text-wrong',
                          f'{fn.__name__}({value!r}) = {text!r} reads as {read}, wanted {want}', replay)
            continue
        try:
            back = from_iso(text)
        except Exception as err:
            res.violation('datetime-parse-back-raises',
                          f'from_isodatetime({text!r}) raised {err!r}', replay)
            continue
        ok = (isinstance(back, datetime.datetime) and back.tzinfo is not None
              and back == value and back.utcoffset() == value.utcoffset()
              and back.microsecond == us
              and (back.year, back.month, back.day, back.hour, back.minute, back.second) == (y, mo, d, h, mi, s))
        if not ok:
            mech = 'datetime-parse-back-wrong'
            if isinstance(back, datetime.datetime) and back.microsecond != us and \
                    back.replace(microsecond=us) == value:
                mech = 'datetime-parse-back-microsecond-truncated'
            res.violation(mech,
                          f'from_isodatetime({text!r}) = {back!r} != original {value!r}', replay)
        # the same instant written with two other offsets, straight afterwards: the text of a value must not
        # depend on what was rendered before it (equal instants compare and hash equal whatever their offset)
        if i % 4 == 0 and 3 < y < 9990:
            for off2 in (rng.choice(offsets), 0):
                other = value.astimezone(datetime.timezone(datetime.timedelta(minutes=off2)))
                text2 = fn(other)
                res.count('dt.same_instant_other_offset')
                m2 = XS_DATETIME.match(text2)
                zone = m2.group(8) if m2 else None
                t_off2 = 0 if zone in (None, 'Z') else (int(zone[1:3]) * 60 + int(zone[4:6])) * (-1 if zone[0] == '-' else 1)
                if not m2 or t_off2 != off2 or int(m2.group(4)) != other.hour or int(m2.group(5)) != other.minute:
                    res.violation('datetime-text-depends-on-earlier-rendering',
                                  f'{fn.__name__}({other!r}) = {text2!r} right after the same instant was rendered as {text!r}',
                                  {'op': 'datetime-pair', 'first': value.isoformat(), 'second': other.isoformat()})
                    break
        if len(res.samples) < 6:
            res.samples.append({'op': 'datetime', 'text': text, 'offset_min': off, 'us': us})


def run_ticks(ctx: ShardCtx, res: ShardResult, dt_mod) -> None:
    rng = ctx.rng
    tc2td = dt_mod.timecode_to_timedelta
    td2tc = dt_mod.timedelta_to_timecode
    scale_td = dt_mod.scale_timedelta
    mult_td = dt_mod.multiply_timedelta
    timescales = [1, 2, 3, 7, 24, 25, 30, 50, 60, 90, 200, 240, 1000, 1001, 22050, 44100, 48000,
                  90000, 10**6, 10**6 + 1, 3 * 10**6, 9999991, 10**7]
    n = ctx.scale(20000, 400000)
    for i in range(n):
        ts = rng.choice(timescales) if i % 4 else rng.randrange(1, 10**7 + 1)
        bucket = len(str(ts))
        # timecodes up to 2^63 would overflow timedelta (max ~ 8.6e16 us); keep the
        # value representable: tc/ts <= 10^9 days
        top = min(2**63 - 1, ts * 86400 * 999999)
        mag = rng.choice([ts, ts * 60, ts * 86400, 2**31, 2**32, 2**33, top])
        tc = rng.randrange(0, max(2, min(mag, top)))
        res.evaluations += 1
        res.count('tick.compared')
        replay = {'op': 'tick', 'timecode': tc, 'timescale': ts}
        td = tc2td(tc, ts)
        exact = Fraction(tc, ts)
        td_exact = Fraction(td.days * 86400 + td.seconds) + Fraction(td.microseconds, 10**6)
        # forward conversion within one microsecond of the exact value (floor)
        if not (0 <= exact - td_exact < Fraction(1, 10**6)):
            res.violation('timecode-to-timedelta-off',
                          f'timecode_to_timedelta({tc},{ts}) = {td!r}, exact {float(exact)}', replay)
        back = td2tc(td, ts)
        if abs(back - tc) > 1:
            # a timedelta cannot hold less than one microsecond: with more than 10^6 ticks
            # per second the loss is bounded by ceil(ts/10^6) ticks -- classified apart so
            # that any larger loss, or any loss at ts <= 10^6, is a different mechanism
            if ts > 10**6 and 0 <= tc - back <= -(-ts // 10**6):
                mech = 'tick-roundtrip-timescale-finer-than-microsecond'
            else:
                mech = 'tick-roundtrip-more-than-one-tick'
            res.violation(mech,
                          f'timedelta_to_timecode(timecode_to_timedelta({tc},{ts}),{ts}) = {back}', replay)
        # the other direction: delta -> ticks -> delta within one tick
        us_total = rng.randrange(0, 86400 * 10**6 * rng.choice([1, 366, 366 * 50]))
        delta = datetime.timedelta(microseconds=us_total)
        ticks = td2tc(delta, ts)
        exact_ticks = Fraction(us_total * ts, 10**6)
        if not (0 <= exact_ticks - ticks <= 1 + Fraction(ts, 10**6)) and abs(exact_ticks - ticks) > 1:
            res.violation('timedelta-to-timecode-off',
                          f'timedelta_to_timecode({delta!r},{ts}) = {ticks}, exact {float(exact_ticks)}',
                          {'op': 'tick2', 'us': us_total, 'timescale': ts})
        delta2 = tc2td(ticks, ts)
        d2 = Fraction(delta2.days * 86400 + delta2.seconds) + Fraction(delta2.microseconds, 10**6)
        if abs(d2 - Fraction(us_total, 10**6)) > Fraction(1, ts) + Fraction(1, 10**6):
            res.violation('tick-roundtrip-more-than-one-tick',
                          f'timecode_to_timedelta(timedelta_to_timecode({delta!r},{ts}),{ts}) = {delta2!r}',
                          {'op': 'tick2', 'us': us_total, 'timescale': ts})
        # monotone: tc <= tc' => td <= td' ; delta <= delta' => ticks <= ticks'
        step = rng.choice([1, 1, 2, ts, rng.randrange(1, 1000)])
        if tc2td(tc + step, ts) < td:
            res.violation('timecode-to-timedelta-not-monotone',
                          f'timecode_to_timedelta not monotone at {tc}+{step}, ts={ts}', replay)
        dstep = datetime.timedelta(microseconds=rng.choice([1, 1, 7, 1000, 999999]))
        if td2tc(delta + dstep, ts) < ticks:
            res.violation('timedelta-to-timecode-not-monotone',
                          f'timedelta_to_timecode not monotone at {delta!r}+{dstep!r}, ts={ts}',
                          {'op': 'tick2', 'us': us_total, 'timescale': ts})
        # scale_timedelta(delta, num, denom) ~ delta*num/denom ; multiply_timedelta = floor(delta*num)
        num = rng.choice([1, ts, rng.randrange(1, 10**5)])
        denom = rng.choice([1, ts, rng.randrange(1, 10**5)])
        got = scale_td(delta, num, denom)
        want = Fraction(us_total * num, 10**6 * denom)
        # documented as float arithmetic: allow one unit (floor of the microsecond part) plus
        # double rounding
        lim = Fraction(1, denom) + abs(want) * Fraction(1, 2**50)
        if abs(Fraction(got) - want) > lim:
            res.violation('scale-timedelta-off',
                          f'scale_timedelta({delta!r},{num},{denom}) = {got!r}, exact {float(want)!r}',
                          {'op': 'scale', 'us': us_total, 'num': num, 'denom': denom})
        got_m = mult_td(delta, num)
        want_m = (us_total * num) // 10**6
        if got_m != want_m:
            res.violation('multiply-timedelta-not-floor',
                          f'multiply_timedelta({delta!r},{num}) = {got_m}, floor is {want_m}',
                          {'op': 'mult', 'us': us_total, 'num': num})
        res.keys.add(f'tick:ts1e{bucket}:mag1e{len(str(tc))}')
        if len(res.samples) < 8 and i < 2:
            res.samples.append({'op': 'tick', 'timecode': tc, 'timescale': ts, 'timedelta': str(td)})


def run_shard(ctx: ShardCtx) -> ShardResult:
    from dashlive.utils import date_time as dt_mod
    from dashlive.utils import timezone as tz_mod
    from dashlive.server import template_tags as tags
    res = ShardResult()
    if ctx.replay:
        return replay(ctx, res, dt_mod, tz_mod, tags)
    run_datetimes(ctx, res, dt_mod, tz_mod, tags)
    run_ticks(ctx, res, dt_mod)
    run_durations(ctx, res, dt_mod, tags)
    return res


def replay(ctx, res, dt_mod, tz_mod, tags):
    r = ctx.replay.get('replay', {})
    res.notes.append(f'replay {r}')
    if r.get('op') == 'duration':
        value = eval(r['value'], {'datetime': datetime})  # repr of float/str/timedelta written by this check
        fn = dt_mod.toIsoDuration if r['fn'] == 'toIsoDuration' else tags.isoDuration
        if isinstance(value, datetime.timedelta):
            exact = Fraction(value.days * 86400 + value.seconds) + Fraction(value.microseconds, 10**6)
        elif isinstance(value, str):
            exact = Fraction(value)
        else:
            exact = Fraction(value)
        check_duration(res, fn, value, exact, r['kind'], HALF_MS + Fraction(1, 10**9),
                       dt_mod.from_isodatetime, 'replay')
    elif r.get('op') == 'datetime':
        value = datetime.datetime.fromisoformat(r['value'])
        text = dt_mod.to_iso_datetime(value)
        back = dt_mod.from_isodatetime(text)
        res.count('dt.compared')
        if back != value or back.microsecond != value.microsecond:
            res.violation('datetime-parse-back-wrong', f'{text!r} -> {back!r} != {value!r}', r)
    res.evaluations += 1
    return res
