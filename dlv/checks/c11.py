"""C11 -- DRM key and licence data is cryptographically and structurally correct.

(A) differential monitor on the real PlayReady helper functions against independent
    hashlib / uuid / own-AES implementations and an independent PRO/WRMHEADER reader;
(B) history monitor on POST /clearkey with mixes of known/unknown/duplicate/malformed ids;
(C) HTTP-boundary monitor: ContentProtection elements of real manifests versus the request
    and versus the pssh boxes of the init segments served for the same request.
"""
from __future__ import annotations

import base64
import datetime
import json

from dlv.core import ShardCtx, ShardResult
from dlv.oracles import isobmff as ib
from dlv.oracles import playready_ref as pr

PROPERTY = 'C11'
LEVEL = 'exploration'
RULE = ('(A) random 16-byte KIDs/keys, seeds of 30..64 bytes (and <30 for the refusal path), key sets of 1..5, header '
        'versions 4.0-4.3 / PlayReady versions absent,1.0-4.0, licence URLs with format fields and URL-reserved / XML-special '
        'characters; (B) ClearKey requests mixing known, unknown, duplicate and malformed ids; (C) manifests of the 7 '
        'DRM-capable templates x drm selections x locations x versions, compared with the request and with the init pssh. '
        'distinct = (layer, function / header version / key-set size / URL class / selection shape).')
ASSUMPTIONS = [
    'oracles: hashlib SHA-256 key-seed derivation, uuid.UUID.bytes_le, pure-Python AES-128 (FIPS-197 self-test), struct+lxml PRO reader',
    'WRMHEADER 4.0/4.1 name the default KID only; 4.2/4.3 name every key of the set',
    'LA_URL comparison is made for URLs without str.format fields, and for {default_kid}',
    'shims + werkzeug test client as HTTP boundary for (B) and (C)',
]
REQUIRED_COUNTERS = ['a.content_key', 'a.le_guid', 'a.checksum', 'a.pro_parsed', 'b.clearkey_requests',
                     'c.manifests', 'c.pssh_vs_init', 'reach.generate_content_key', 'reach.hex_to_le_guid',
                     'reach.generate_checksum', 'reach.generate_pro', 'reach.post']

UTC = datetime.timezone.utc
PR_URN = 'urn:uuid:9a04f079-9840-4286-ab92-e65be0885f95'
PR_URN_V1 = 'urn:uuid:79f0049a-4098-8642-ab92-e65be0885f95'
CK_URN = 'urn:uuid:e2719d58-a985-b3c9-781a-b030af78d30e'
CK_PSSH_URN = 'urn:uuid:1077efec-c0b2-4d02-ace3-3c1e52e2fb4b'
MARLIN_URN = 'urn:uuid:5e629af5-38da-4063-8977-97ffbd9902d4'
NS = {'d': 'urn:mpeg:dash:schema:mpd:2011', 'cenc': 'urn:mpeg:cenc:2013', 'mspr': 'urn:microsoft:playready'}


def shards(tier: str) -> int:
    return 16


LA_URLS = [
    ('plain', 'https://lic.example.test/rightsmanager.asmx'),
    ('query-amp', 'https://lic.example.test/pr?a=1&b=2&c=%20x'),
    ('plus-eq', 'https://lic.example.test/pr?token=a+b/c==&x=y'),
    ('quotes', 'https://lic.example.test/pr?q=\'single\'&d="double"'),
    ('unicode', 'https://lic.example.test/é中/pr'),
    ('fmt-kid', 'https://lic.example.test/pr?kid={default_kid}'),
    ('fmt-cfgs', 'https://test.playready.microsoft.com/service/rightsmanager.asmx?cfg={cfgs}'),
    ('angle', 'https://lic.example.test/pr?a=<b>&c=]]>'),
]


def part_a(ctx: ShardCtx, res: ShardResult, env) -> None:
    from dashlive.drm.playready import PlayReady
    from dashlive.drm.keymaterial import KeyMaterial
    from dashlive.drm.key_tuple import KeyTuple
    import io
    rng = ctx.rng
    n = ctx.scale(20000, 600000)
    with env.app.test_request_context('/'):
        for i in range(n):
            kid = rng.randbytes(16) if i % 50 else bytes([rng.choice([0, 0xFF, 0x80])]) * 16
            key = rng.randbytes(16)
            seed_len = rng.choice([30, 30, 31, 32, 40, 63, 64, rng.randrange(30, 65)])
            seed = rng.randbytes(seed_len)
            # --- GUID order
            got = PlayReady.hex_to_le_guid(kid, raw=True)
            res.count('a.le_guid')
            if got != pr.le_guid(kid):
                res.violation('le-guid-differs-from-rfc4122-bytes-le',
                              f'hex_to_le_guid({kid.hex()}) = {got.hex()} != {pr.le_guid(kid).hex()}', {'kid': kid.hex()})
            import uuid as _uuid
            txt = PlayReady.hex_to_le_guid(str(_uuid.UUID(bytes=kid)), raw=False)
            if txt.replace('-', '').lower() != pr.le_guid(kid).hex():
                res.violation('le-guid-differs-from-rfc4122-bytes-le',
                              f'hex_to_le_guid(text {kid.hex()}) = {txt}', {'kid': kid.hex()})
            # --- content key
            got = bytes(PlayReady.generate_content_key(kid, seed))
            res.count('a.content_key')
            if got != pr.content_key(kid, seed):
                res.violation('content-key-differs-from-key-seed-algorithm',
                              f'generate_content_key(kid={kid.hex()}, seed={seed.hex()}) = {got.hex()} '
                              f'!= {pr.content_key(kid, seed).hex()}', {'kid': kid.hex(), 'seed': seed.hex()})
            if i % 40 == 0:
                short = rng.randbytes(rng.randrange(0, 30))
                try:
                    PlayReady.generate_content_key(kid, short)
                    res.violation('short-key-seed-accepted', f'seed of {len(short)} bytes accepted', {})
                except ValueError:
                    res.count('a.short_seed_refused')
                got = bytes(PlayReady.generate_content_key(kid))
                if got != pr.content_key(kid, base64.b64decode('XVBovsmzhP9gRIZxWfFta3VVRPzVEWmJsazEJ46I')):
                    res.violation('content-key-differs-from-key-seed-algorithm', 'default test seed', {'kid': kid.hex()})
            # --- checksum
            kt = KeyTuple(KID=KeyMaterial(raw=kid), KEY=KeyMaterial(raw=key), ALG='AESCTR')
            setattr_ok = True
            cs = PlayReady().generate_checksum(kt)
            res.count('a.checksum')
            if cs != pr.checksum(kid, key):
                res.violation('checksum-differs-from-aes-ecb-of-le-kid',
                              f'generate_checksum(kid={kid.hex()}, key={key.hex()}) = {cs.hex()} != {pr.checksum(kid, key).hex()}',
                              {'kid': kid.hex(), 'key': key.hex()})
            res.evaluations += 1
            # --- PRO generation (costly: template rendering) on a subset
            if i % 6:
                continue
            nkeys = rng.choice([1, 1, 2, 3, 5])
            keys = {}

            class K:   # KeyTuple has no `computed`; models.Key has -- mimic the model interface
                pass
            klist = []
            dflt = rng.randrange(nkeys)         # the default key is not always the first of the set
            for j in range(nkeys):
                k_id = kid if j == dflt else rng.randbytes(16)
                k_key = key if j == dflt else rng.randbytes(16)
                obj = K()
                obj.KID, obj.KEY, obj.ALG = KeyMaterial(raw=k_id), KeyMaterial(raw=k_key), 'AESCTR'
                obj.computed = rng.random() < 0.5
                keys[k_id.hex()] = obj
                klist.append((k_id, k_key))
            hv = rng.choice([None, 4.0, 4.1, 4.2, 4.3])
            ver = rng.choice([None, 1.0, 2.0, 3.0, 4.0])
            cls, la = rng.choice(LA_URLS)
            p = PlayReady(la_url=None, version=ver, header_version=hv)
            tag = f'hv{hv}|v{ver}|n{nkeys}|{cls}|{"first" if dflt == 0 else "later"}-default'
            replay = {'pro_case': {'kids': [a.hex() for a, _ in klist], 'keys': [b.hex() for _, b in klist],
                                   'header_version': hv, 'version': ver, 'la_url': la}}
            try:
                pro = p.generate_pro(la, kid.hex(), keys, None)
            except ValueError as err:
                # documented refusal: header version not supported by the PlayReady version
                res.count('a.pro_refused')
                continue
            res.count('a.pro_generated')
            try:
                parsed = pr.parse_pro(pro)
                hdr = parsed['header']
                if hdr is None:
                    raise ValueError('no type-1 record')
            except Exception as err:
                mech = 'pro-not-parseable-xml-special-la-url' if cls == 'angle' else 'pro-not-parseable'
                res.violation(mech, f'generate_pro({tag}) does not parse back: {type(err).__name__}: {err}', replay)
                continue
            res.count('a.pro_parsed')
            res.keys.add('A|' + tag)
            used = hv if hv is not None else {'4.0.0.0': 4.0, '4.1.0.0': 4.1, '4.2.0.0': 4.2, '4.3.0.0': 4.3}.get(hdr['version'])
            if hdr['version'] != {4.0: '4.0.0.0', 4.1: '4.1.0.0', 4.2: '4.2.0.0', 4.3: '4.3.0.0'}.get(used):
                res.violation('wrmheader-version-differs', f'{tag}: header says {hdr["version"]}', replay)
            want_kids = [pr.le_guid(kid)] if used in (4.0, 4.1) else [pr.le_guid(a) for a, _ in klist]
            got_kids = [k['kid_le'] for k in hdr['kids']]
            if sorted(got_kids) != sorted(want_kids):
                res.violation('wrmheader-kids-differ', f'{tag}: header KIDs {[g.hex() for g in got_kids]} '
                                                       f'want {[w.hex() for w in want_kids]}', replay)
            # checksums
            if used in (4.0,):
                if hdr['checksum'] is not None and hdr['checksum'] != pr.checksum(kid, key):
                    res.violation('wrmheader-checksum-wrong', f'{tag}: CHECKSUM {hdr["checksum"].hex()}', replay)
                res.count('a.header_checksum')
            else:
                by = {pr.le_guid(a): pr.checksum(a, b) for a, b in klist}
                for k in hdr['kids']:
                    if k['checksum'] is not None:
                        res.count('a.header_checksum')
                        if by.get(k['kid_le']) != k['checksum']:
                            res.violation('wrmheader-checksum-wrong',
                                          f'{tag}: KID {k["kid_le"].hex()} CHECKSUM {k["checksum"].hex()}', replay)
            if '{' not in la:
                if hdr['la_url'] != la:
                    res.violation('wrmheader-la-url-differs', f'{tag}: LA_URL {hdr["la_url"]!r} want {la!r}', replay)
            elif cls == 'fmt-kid':
                if hdr['la_url'] != la.format(default_kid=kid.hex()):
                    res.violation('wrmheader-la-url-differs', f'{tag}: LA_URL {hdr["la_url"]!r}', replay)
            # the repository's own parser must read its own output too
            try:
                recs = PlayReady.parse_pro(io.BytesIO(pro))
                if not recs or recs[0].xml is None:
                    raise ValueError('no xml')
            except Exception as err:
                res.violation('own-parse-pro-fails', f'{tag}: PlayReady.parse_pro raised {err!r}', replay)
            # pssh wrapper
            box = p.generate_pssh(la, kid.hex(), keys)
            raw = box.encode()
            root = ib.parse_file(raw)
            ps = ib.read_pssh(raw, root.children[0])
            res.count('a.pssh')
            if ps['system_id'] != pr.SYSTEM_ID or ps['data'] != pro:
                res.violation('playready-pssh-wrong', f'{tag}: system id {ps["system_id"].hex()} / payload differs', replay)
            if nkeys >= 2 and sorted(ps['kids']) != sorted(a for a, _ in klist):
                res.violation('playready-pssh-kids-differ', f'{tag}: v{ps["version"]} kids {[k.hex() for k in ps["kids"]]}', replay)
            if len(res.samples) < 3:
                res.samples.append({'layer': 'A', 'case': tag, 'wrmheader': hdr['xml'][:300]})
            if ctx.out_of_time():
                break


def b64url(b: bytes) -> str:
    return base64.urlsafe_b64encode(b).rstrip(b'=').decode()


def part_b(ctx: ShardCtx, res: ShardResult, env) -> None:
    rng = ctx.rng
    models = env.models
    known: dict[bytes, bytes] = {}
    with env.app.app_context():
        for k in models.Key.all():
            known[bytes.fromhex(k.hkid)] = bytes.fromhex(k.hkey)
        # extra keys, incl. byte patterns that exercise '-' '_' in base64url
        for _ in range(12):
            kid = rng.choice([rng.randbytes(16), bytes([0xFB, 0xFF, 0xBE] * 5 + [0xFF]), bytes([0xFF] * 16)])
            if kid in known:
                continue
            key = rng.choice([rng.randbytes(16), bytes([0xFB, 0xEF] * 8)])
            models.db.session.add(models.Key(hkid=kid.hex(), hkey=key.hex(), computed=False))
            known[kid] = key
        models.db.session.commit()
    client = env.client()
    kl = list(known)
    n = ctx.scale(1500, 40000)
    for i in range(n):
        ids = []
        want = {}
        shape = []
        for _ in range(rng.randrange(0, 6)):
            r = rng.random()
            if r < 0.5:
                kid = rng.choice(kl)
                ids.append(b64url(kid))
                want[b64url(kid)] = b64url(known[kid])
                shape.append('known')
            elif r < 0.75:
                ids.append(b64url(rng.randbytes(16)))
                shape.append('unknown')
            elif r < 0.85 and ids:
                ids.append(rng.choice(ids))
                shape.append('dup')
            elif r < 0.92:
                kid = rng.choice(kl)
                ids.append(base64.urlsafe_b64encode(kid).decode())     # padded form
                want[b64url(kid)] = b64url(known[kid])
                shape.append('padded')
            else:
                ids.append(rng.choice(['', '!!!!', 'AAAA', b64url(rng.randbytes(15)), b64url(rng.randbytes(17)), 'a']))
                shape.append('malformed')
        body = {'kids': ids, 'type': rng.choice(['temporary', 'persistent-license'])}
        resp = env.get('/clearkey', client=client, method='POST', json=body)
        res.count('b.clearkey_requests')
        res.evaluations += 1
        rp = {'clearkey': body}
        key = 'B|' + '+'.join(sorted(set(shape)) or ['empty'])
        res.keys.add(key)
        if resp.status_code >= 500:
            res.violation('clearkey-5xx', f'POST /clearkey {body} -> {resp.status_code}', rp,
                          exception=env.rec.last_exception)
            continue
        try:
            js = resp.get_json()
        except Exception:
            js = None
        if resp.status_code != 200 or not isinstance(js, dict):
            res.violation('clearkey-unexpected-response', f'POST /clearkey {body} -> {resp.status_code} {resp.data[:80]!r}', rp)
            continue
        if 'malformed' in shape and js.get('error'):
            res.count('b.malformed_refused')
            continue
        got = {}
        dup = False
        for item in js.get('keys', []):
            if item.get('kty') != 'oct':
                res.violation('clearkey-wrong-kty', f'{item}', rp)
            if item.get('kid') in got:
                dup = True
            got[item.get('kid')] = item.get('k')
        if 'malformed' in shape:
            # only ids that decode to 16 bytes can be known; the rest must contribute nothing
            pass
        if got != want or dup:
            mech = 'clearkey-extra-key' if set(got) - set(want) else \
                'clearkey-missing-key' if set(want) - set(got) else \
                'clearkey-duplicate-key' if dup else 'clearkey-wrong-key-value'
            res.violation(mech, f'POST /clearkey {ids}: got {got} want {want}', rp)
        if js.get('type') != body['type']:
            res.violation('clearkey-type-not-echoed', f'{js.get("type")}', rp)
        if len(res.samples) < 5 and want:
            res.samples.append({'layer': 'B', 'request': body, 'response': js})


def part_c(ctx: ShardCtx, res: ShardResult, env) -> None:
    from lxml import etree
    from dlv import workload as W
    from dlv.livewalk import qs, LiveWalk
    from dlv.oracles import mpd as M
    rng = ctx.rng
    client = env.client()
    templates = ['hand_made.mpd', 'manifest_e.mpd', 'manifest_h.mpd', 'manifest_i.mpd', 'manifest_n.mpd',
                 'manifest_ef.mpd', 'manifest_b.mpd']
    stored_kid = {}
    for (directory, name), buf in env.stored.items():
        sf = ib.index_file(buf)
        if sf.tenc:
            stored_kid[name] = sf.tenc['kid']
    n = ctx.scale(400, 12000)
    for i in range(n):
        manifest = rng.choice(templates)
        mode = 'vod' if manifest == 'manifest_b.mpd' else rng.choice(['live', 'vod'])
        sel = None
        while not sel:
            sel = W.drm_selection(rng, allow_none=False)
        params = {'drm': sel}
        ver = rng.choice([None, None, '1.0', '2.0', '3.0', '4.0'])
        if ver:
            params['playready__version'] = ver
        la_cls, la = (None, None)
        if rng.random() < 0.3:
            la_cls, la = rng.choice(LA_URLS[:5])
            from urllib.parse import quote_plus
            params['playready__la_url'] = la
        env.clock.set(datetime.datetime(2024, 4, 2, 10, 0, rng.randrange(60), tzinfo=UTC))
        url = f'/dash/{mode}/bbb/{manifest}' + qs(params)
        resp = env.get(url, client=client)
        res.evaluations += 1
        rp = {'manifest_case': {'url': url, 'now': env.clock.instant.isoformat()}}
        if resp.status_code != 200:
            res.count(f'c.manifest_status_{resp.status_code}')
            continue
        try:
            doc = M.parse_mpd(resp.data, 'http://localhost' + url)
        except Exception as err:
            res.count('c.manifest_unparseable')
            continue
        res.count('c.manifests')
        # expectation from the request alone
        exp: dict[str, set] = {}
        low = sel.lower()
        if low.startswith('all'):
            locs = set(low.split('-')[1:]) or {'pro', 'cenc', 'moov'}
            exp = {s: set(locs) for s in ('playready', 'marlin', 'clearkey')}
        else:
            for item in low.split(','):
                parts = item.split('-')
                exp[parts[0]] = set(parts[1:]) or {'pro', 'cenc', 'moov'}
        res.keys.add(f'C|{manifest}|{mode}|{"+".join(sorted(exp))}|{"-".join(sorted(set().union(*exp.values())))}|v{ver}')
        seen_adps = 0
        for period, rep in doc.all_reps():
            adp = rep.adaptation_element
            if rep.id not in stored_kid:
                continue
            if adp.get('_c11_done'):
                continue
            adp.set('_c11_done', '1')
            seen_adps += 1
            kid = stored_kid[rep.id]
            cps = adp.findall('d:ContentProtection', NS) + rep.element.findall('d:ContentProtection', NS)
            by_scheme: dict[str, list] = {}
            for cp in cps:
                by_scheme.setdefault(cp.get('schemeIdUri', '').lower(), []).append(cp)
            mp4p = by_scheme.get('urn:mpeg:dash:mp4protection:2011', [])
            import uuid as _uuid
            if not mp4p:
                res.violation('mp4protection-element-missing', f'{url}: AdaptationSet of {rep.id}', rp)
            else:
                dk = mp4p[0].get('{urn:mpeg:cenc:2013}default_KID', '')
                if dk.replace('-', '').lower() != kid.hex():
                    res.violation('default-kid-differs-from-track-kid', f'{url}: {rep.id} default_KID {dk} track {kid.hex()}', rp)
            present = {
                'playready': bool(by_scheme.get(PR_URN) or by_scheme.get(PR_URN_V1)),
                'clearkey': bool(by_scheme.get(CK_URN) or by_scheme.get(CK_PSSH_URN)),
                'marlin': bool(by_scheme.get(MARLIN_URN)),
            }
            for sysname in ('playready', 'clearkey', 'marlin'):
                if present[sysname] != (sysname in exp):
                    res.violation('content-protection-systems-differ-from-request',
                                  f'{url}: {rep.id}: {sysname} present={present[sysname]} requested={sysname in exp}', rp)
            # embedded payloads vs request locations and vs the init segment
            init_psshs = None

            def init_boxes():
                nonlocal init_psshs
                if init_psshs is None:
                    r = env.get(LiveWalk._path(rep.init_url()), client=client)
                    init_psshs = {}
                    if r.status_code == 200:
                        root = ib.parse_file(r.data)
                        moov = root.find(b'moov')
                        for b in moov.children:
                            if b.type == b'pssh':
                                p = ib.read_pssh(r.data, b)
                                init_psshs[p['system_id']] = r.data[b.start:b.end]
                return init_psshs
            # the init segment the manifest points at carries a pssh box of a system exactly when "moov" is
            # one of the locations requested for it
            have = init_boxes()
            res.count('c.init_locations_checked')
            for sysname, sid in (('playready', pr.SYSTEM_ID), ('clearkey', pr.CLEARKEY_PSSH_SYSTEM_ID)):
                want_in_moov = sysname in exp and 'moov' in exp[sysname]
                if (sid in have) != want_in_moov:
                    res.violation('init-segment-of-manifest-pssh-location-mismatch',
                                  f'{url}: {rep.id}: the init segment named by the manifest ({rep.init_url()}) '
                                  f'{"carries" if sid in have else "lacks"} a {sysname} pssh; requested locations '
                                  f'{sorted(exp.get(sysname, []))}', rp)
            if 'playready' in exp:
                locs = exp['playready']
                els = by_scheme.get(PR_URN, []) + by_scheme.get(PR_URN_V1, [])
                v1 = (ver == '1.0')
                if els:
                    el = els[0]
                    if (el.get('schemeIdUri', '').lower() == PR_URN_V1) != v1:
                        res.violation('playready-scheme-id-version-mismatch', f'{url}: {el.get("schemeIdUri")} for version {ver}', rp)
                    pssh_el = el.find('cenc:pssh', NS)
                    pro_el = el.find('mspr:pro', NS)
                    want_pssh = 'cenc' in locs and not v1
                    if (pssh_el is not None) != want_pssh:
                        res.violation('playready-cenc-pssh-location-mismatch',
                                      f'{url}: cenc:pssh present={pssh_el is not None} locations={sorted(locs)} version={ver}', rp)
                    if (pro_el is not None) != ('pro' in locs):
                        res.violation('playready-pro-location-mismatch',
                                      f'{url}: mspr:pro present={pro_el is not None} locations={sorted(locs)}', rp)
                    pro_bytes = None
                    if pro_el is not None:
                        try:
                            pro_bytes = base64.b64decode(pro_el.text.strip(), validate=True)
                            hdr = pr.parse_pro(pro_bytes)['header']
                            if pr.le_guid(kid) not in [k['kid_le'] for k in hdr['kids']]:
                                res.violation('manifest-pro-wrong-kid', f'{url}: {rep.id}', rp)
                            res.count('c.pro_parsed')
                        except Exception as err:
                            res.violation('manifest-pro-not-parseable', f'{url}: {type(err).__name__}: {err}', rp)
                    if pssh_el is not None:
                        try:
                            raw = base64.b64decode(pssh_el.text.strip(), validate=True)
                            root = ib.parse_file(raw)
                            p = ib.read_pssh(raw, root.children[0])
                            if p['system_id'] != pr.SYSTEM_ID:
                                res.violation('manifest-pssh-wrong-system-id', f'{url}', rp)
                            if pro_bytes is not None and p['data'] != pro_bytes:
                                res.violation('manifest-pssh-and-pro-differ', f'{url}: {rep.id}', rp)
                            if 'moov' in locs:
                                res.count('c.pssh_vs_init')
                                ip = init_boxes().get(pr.SYSTEM_ID)
                                if ip != raw:
                                    res.violation('manifest-pssh-differs-from-init-pssh',
                                                  f'{url}: {rep.id}: cenc:pssh ({len(raw)} B) vs init pssh '
                                                  f'({len(ip) if ip else None} B)', rp)
                        except ib.BoxError as err:
                            res.violation('manifest-pssh-not-parseable', f'{url}: {err}', rp)
            if 'clearkey' in exp:
                locs = exp['clearkey']
                la_els = by_scheme.get(CK_URN, [])
                ps_els = by_scheme.get(CK_PSSH_URN, [])
                if bool(ps_els) != ('cenc' in locs):
                    res.violation('clearkey-cenc-pssh-location-mismatch',
                                  f'{url}: clearkey pssh element present={bool(ps_els)} locations={sorted(locs)}', rp)
                if ps_els:
                    try:
                        raw = base64.b64decode(ps_els[0].find('cenc:pssh', NS).text.strip(), validate=True)
                        root = ib.parse_file(raw)
                        p = ib.read_pssh(raw, root.children[0])
                        if p['system_id'] != pr.CLEARKEY_PSSH_SYSTEM_ID or kid not in p['kids']:
                            res.violation('clearkey-manifest-pssh-wrong', f'{url}: {rep.id}', rp)
                        if 'moov' in locs:
                            res.count('c.pssh_vs_init')
                            ip = init_boxes().get(pr.CLEARKEY_PSSH_SYSTEM_ID)
                            if ip != raw:
                                res.violation('manifest-pssh-differs-from-init-pssh',
                                              f'{url}: {rep.id}: clearkey cenc:pssh vs init pssh', rp)
                    except Exception as err:
                        res.violation('manifest-pssh-not-parseable', f'{url}: clearkey: {err}', rp)
        res.count('c.adaptation_sets', seen_adps)
        if ctx.out_of_time():
            break


def run_shard(ctx: ShardCtx) -> ShardResult:
    from dlv.appenv import AppEnv
    from dlv.reach import Reach
    res = ShardResult()
    env = AppEnv()
    try:
        env.add_fixture_stream('bbb')
        reach = Reach([
            ('dashlive.drm.playready', 'PlayReady.generate_content_key'),
            ('dashlive.drm.playready', 'PlayReady.hex_to_le_guid'),
            ('dashlive.drm.playready', 'PlayReady.generate_checksum'),
            ('dashlive.drm.playready', 'PlayReady.generate_pro'),
            ('dashlive.drm.playready', 'PlayReady.generate_wrmheader'),
            ('dashlive.drm.playready', 'PlayReady.generate_pssh'),
            ('dashlive.server.requesthandler.clearkey', 'ClearkeyHandler.post'),
        ])
        if ctx.replay:
            res.notes.append('replay: re-running a reduced workload with the same seed')
        total = ctx.budget_s
        ctx.budget_s = total * 0.4
        part_a(ctx, res, env)
        ctx.budget_s = total * 0.55
        part_b(ctx, res, env)
        ctx.budget_s = total
        part_c(ctx, res, env)
        reach.report(res)
    finally:
        env.close()
    return res
