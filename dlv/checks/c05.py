"""C05 -- every manifest response is well-formed, structurally valid DASH.

HTTP-boundary monitor: every 200 response of the manifest, multi-period manifest and
MPD-patch endpoints is parsed with lxml and checked by a rule set written from
ISO/IEC 23009-1; the same request is rendered with benign and with hostile stored metadata /
query values and the element skeletons are compared (a string may never add, remove or
break elements) and the hostile string must be recovered verbatim where it is placed.
"""
from __future__ import annotations

import datetime

from dlv.core import ShardCtx, ShardResult
from dlv.oracles import mpdrules as R

PROPERTY = 'C05'
LEVEL = 'exploration'
RULE = ('cases = (template (9 + patch) x supported mode x single/multi-period x option vector x clock); each case is '
        'rendered with benign metadata and again with hostile strings (& < > " \' ]]> comments, PIs, entities, $-templates, '
        'RTL/combining/astral unicode, 10 kB) placed in: stored title, stored/queried licence URLs, time_value, ntp_servers, '
        'unknown query keys, Host header. Non-trivial = a 200 document was parsed and rule-checked; distinct = '
        '(template, mode, period kind, hostile location, hostile class, option-vector signature).')
ASSUMPTIONS = [
    'rule set compiled from ISO/IEC 23009-1 (attribute types, required attributes per MPD@type, id uniqueness, template identifiers); it is not the full XSD',
    'hostile strings are placed only where the service treats the value as an opaque string; structure-selecting options keep the same value in both renders',
    'stored metadata is written through the real POST /stream/<pk> endpoint as a media user (no validation is bypassed)',
    'NUL and other characters that cannot occur in XML 1.0 are not used in hostile strings',
    'shims + werkzeug test client as HTTP boundary',
]
REQUIRED_COUNTERS = ['docs.checked', 'docs.patch', 'docs.mps', 'skeleton.compared', 'hostile.recovered',
                     'reach.xmlSafe', 'reach.create_template_context', 'reach.toIsoDuration']

UTC = datetime.timezone.utc

HOSTILE = [
    ('amp', 'Tom & Jerry &amp; &#x41; &bogus;'),
    ('lt-gt', 'a<b>c</b> <Period id="evil"/> </Title>'),
    ('quotes', 'say "hi" and \'bye\' " id="x'),
    ('cdata-end', 'x ]]> y <![CDATA[ z'),
    ('comment', '<!-- c --> --> <!--'),
    ('pi', '<?xml version="1.0"?><?pi x?>'),
    ('dollar', '$Number$ $$ $RepresentationID$ $Bogus$ $Time%05d$'),
    ('unicode', 'مرحبا ‮́ 𝔘𝔫𝔦 \U0001F600 é中'),
    ('long', ('x&<y>"' * 1500)),
    ('percent', '%26 %3C %7f %% %s {0} {cfgs} {kids}'),
    # one metacharacter at a time: an escaping shortcut that tests for "any of the others" misses these
    ('gt-only', 'section [[1]]> part 2 > end'),
    ('lt-only', 'a < b'),
    ('amp-only', 'R&D'),
    ('dq-only', 'a "quoted" word'),
    ('sq-only', "it's"),
]

ALL_TEMPLATES = [('hand_made.mpd', ['live', 'vod', 'odvod']), ('manifest_a.mpd', ['live', 'vod']),
                 ('manifest_b.mpd', ['vod']), ('manifest_e.mpd', ['live', 'vod']), ('manifest_h.mpd', ['live', 'vod']),
                 ('manifest_i.mpd', ['live', 'vod']), ('manifest_ef.mpd', ['live', 'vod']),
                 ('manifest_n.mpd', ['live', 'vod']), ('manifest_vod_aiv.mpd', ['odvod'])]


def shards(tier: str) -> int:
    return 16


def gen_cases(ctx: ShardCtx, n: int) -> list[dict]:
    from dlv import workload as W
    from dlv.livewalk import TIMELINE_TEMPLATES, DRM_TEMPLATES
    rng = ctx.rng
    cases = []
    for _ in range(n):
        kind = rng.random()
        manifest, modes = rng.choice(ALL_TEMPLATES)
        mode = rng.choice(modes)
        if kind < 0.2 and mode != 'odvod':
            route = 'mps'
        elif kind < 0.3 and manifest == 'hand_made.mpd':
            route = 'patch'
            mode = 'live'
        else:
            route = 'single'
        if mode == 'live':
            params, now = W.live_params(rng, manifest, manifest in TIMELINE_TEMPLATES,
                                        manifest in DRM_TEMPLATES, plus_offsets=True)
            if rng.random() < 0.25:
                params['depth'] = str(rng.choice([-5, -1, 0, 1, 2]))
            if rng.random() < 0.2:
                params['drift'] = rng.choice(['10', '-3', '0'])
        else:
            params = {}
            now = W.calendar_instants(rng)
            if manifest in TIMELINE_TEMPLATES and rng.random() < 0.5:
                params['timeline'] = '1'
            if manifest in DRM_TEMPLATES and mode != 'odvod':
                sel = W.drm_selection(rng)
                if sel:
                    params['drm'] = sel
            for k, vals in (('abr', ['0', '1']), ('acodec', ['mp4a', 'ec-3', 'any']), ('base', ['0', '1'])):
                if rng.random() < 0.3:
                    params[k] = rng.choice(vals)
        if rng.random() < 0.25 and manifest in ('hand_made.mpd', 'manifest_n.mpd'):
            # event streams described in the manifest (inband=0) with boundary values of every numeric sub-option
            ev = rng.choice(['ping', 'scte35'])
            params['events'] = ev
            params[f'{ev}__inband'] = rng.choice(['0', '0', '1'])
            names = ['count', 'duration', 'interval', 'start', 'timescale'] + (['version'] if ev == 'ping' else ['program_id'])
            for name in rng.sample(names, rng.randrange(0, 4)):
                params[f'{ev}__{name}'] = str(rng.choice([-5, -1, 0, 1, 2, 7, 1000, 90000, 2**31, 2**32, 2**33 + 1]))
        if route == 'patch':
            params['patch'] = '1'
            params['timeline'] = '1'
        # where (if anywhere) the hostile string goes for the second render
        loc = rng.choice(['title', 'title', 'playready_la_url_stored', 'marlin_la_url_stored',
                          'playready__la_url', 'marlin__la_url', 'clearkey__la_url', 'time_value', 'ntp_servers',
                          'unknown_query', 'host'])
        if loc in ('playready_la_url_stored', 'playready__la_url') and 'drm' not in params and manifest in DRM_TEMPLATES \
                and mode != 'odvod':
            params['drm'] = 'playready'
        if loc in ('time_value', 'ntp_servers') and mode == 'live' and manifest in (
                'hand_made.mpd', 'manifest_e.mpd', 'manifest_h.mpd'):
            params['time'] = rng.choice(['ntp', 'sntp', 'xsd', 'iso', 'head', 'http-ntp']) \
                if loc == 'ntp_servers' else rng.choice(['xsd', 'iso', 'head', 'http-ntp'])
            if rng.random() < 0.5:
                params.setdefault('drift', '10')
        stream = rng.choice(['bbb', 'bbb', 'tears', 'mta'])
        cases.append({'route': route, 'stream': stream, 'manifest': manifest, 'mode': mode, 'params': params,
                      'now': now.isoformat(), 'loc': loc, 'mps': rng.choice(['c05mps', 'c05frac'])})
    return cases


class Renderer:
    def __init__(self, env, res: ShardResult) -> None:
        self.env, self.res = env, res
        self.client = env.client()

    def url_for(self, case: dict, extra: dict | None = None) -> str:
        from dlv.livewalk import qs
        p = dict(case['params'])
        if extra:
            p.update(extra)
        if case['route'] == 'mps':
            return f"/mps/{case['mode']}/{case.get('mps', 'c05mps')}/{case['manifest']}" + qs(p)
        return f"/dash/{case['mode']}/{case['stream']}/{case['manifest']}" + qs(p)

    def render(self, case: dict, extra: dict | None = None, host: str | None = None):
        """-> (status, body, final url, kind) following the PatchLocation for patch cases"""
        env = self.env
        env.clock.set(datetime.datetime.fromisoformat(case['now']))
        url = self.url_for(case, extra)
        headers = {'Host': host} if host else {}
        try:
            r = env.get(url, client=self.client, headers=headers)
        except Exception as err:      # the client itself refused to send (e.g. illegal header)
            return None, b'', url, 'client-refused'
        if case['route'] != 'patch' or r.status_code != 200:
            return r.status_code, r.data, url, 'mpd'
        # fetch the patch the manifest points at, a little later
        try:
            root = R.parse(r.data)
        except Exception:
            return r.status_code, r.data, url, 'mpd'
        pl = root.find(R.Q + 'PatchLocation')
        if pl is None or not pl.text:
            return r.status_code, r.data, url, 'mpd'
        from dlv.livewalk import LiveWalk
        env.clock.advance(case.get('patch_delta', 9.5))
        purl = LiveWalk._path(pl.text.strip())
        r2 = env.get(purl, client=self.client, headers=headers)
        return r2.status_code, r2.data, purl, 'patch'


def set_metadata(session, env, spk: int, title: str, playready: str, marlin: str) -> bool:
    r = session.edit_stream(spk, title=title, playready_la_url=playready, marlin_la_url=marlin)
    return r.status_code == 200


def run_shard(ctx: ShardCtx) -> ShardResult:
    from dlv.appenv import AppEnv
    from dlv.mps import add_mps_db
    from dlv.reach import Reach
    from dlv.session import UserSession
    from dashlive.drm.playready import PlayReady
    res = ShardResult()
    env = AppEnv()
    try:
        spk = {'bbb': env.add_fixture_stream('bbb'), 'tears': env.add_fixture_stream('tears')}
        # stream layouts the fixtures do not have
        from dlv import synth
        synth.add_multitrack_audio_stream(env, res)
        add_mps_db(env, 'c05mps', [
            {'pid': 'p1', 'stream': 'bbb', 'start': 4, 'duration': 32,
             'tracks': [('video', 1, 'main'), ('audio', 2, 'main'), ('text', 4, 'main')]},
            {'pid': 'p2', 'stream': 'tears', 'start': 8, 'duration': 44,
             'tracks': [('video', 1, 'main'), ('audio', 2, 'main')]}], title='Multi period')
        # periods whose durations are not whole seconds (loop arithmetic in floating point)
        add_mps_db(env, 'c05frac', [
            {'pid': 'p1', 'stream': 'bbb', 'start': 4, 'duration': 16.2,
             'tracks': [('video', 1, 'main'), ('audio', 2, 'main')]},
            {'pid': 'p2', 'stream': 'tears', 'start': 8, 'duration': 14.2,
             'tracks': [('video', 1, 'main'), ('audio', 2, 'main')]}], title='Fractional periods')
        # a stream whose *directory* (accepted as free text by the API; it is part of every URL of its manifests
        # and the MPD id) is a hostile string. One per shard; '/' and NUL cannot be in a file name
        from dlv.appenv import FIXTURES
        from urllib.parse import quote as _q
        hd_cls, hd = HOSTILE[(ctx.shard + ctx.seed) % len(HOSTILE)]
        hd = hd.replace('/', ' ')[:60].strip() or 'x'
        hostile_dir = None
        try:
            env.add_stream(hd, title='hostile directory', files={
                f'hd{ctx.shard}_v7': FIXTURES / 'bbb' / 'bbb_v7.mp4', f'hd{ctx.shard}_a1': FIXTURES / 'bbb' / 'bbb_a1.mp4'})
            hostile_dir = (hd_cls, hd)
        except OSError:
            res.count('hostile_directory.not_a_file_name')
        # ... and a multi-period stream whose *name* (free text as well) is the hostile string
        hostile_mps = None
        try:
            add_mps_db(env, hd, [
                {'pid': 'p1', 'stream': 'bbb', 'start': 4, 'duration': 16, 'tracks': [('video', 1, 'main'), ('audio', 2, 'main')]},
                # (the id of a period is free text for the API as well)
                {'pid': hd[:24], 'stream': 'tears', 'start': 8, 'duration': 12, 'tracks': [('video', 1, 'main'), ('audio', 2, 'main')]}],
                title='hostile name')
            hostile_mps = hd
        except Exception:
            res.count('hostile_mps.not_created')
        reach = Reach([
            ('dashlive.server.template_tags', 'xmlSafe'),
            ('dashlive.server.requesthandler.template_context', 'create_template_context'),
            ('dashlive.server.requesthandler.manifest_requests', 'ServeManifest.get'),
            ('dashlive.server.requesthandler.manifest_requests', 'ServeMultiPeriodManifest.get'),
            ('dashlive.server.requesthandler.manifest_requests', 'ServePatch.get'),
            ('dashlive.utils.date_time', 'toIsoDuration'),
        ])
        media = UserSession(env, *env.MEDIA)
        rend = Renderer(env, res)
        benign = {'bbb': ('Big Buck Bunny', PlayReady.TEST_LA_URL, 'ms3://localhost/marlin/bbb'),
                  'tears': ('Tears of Steel', PlayReady.TEST_LA_URL, 'ms3://localhost/marlin/tears')}
        rounds = ctx.scale(10, 120)
        per_round = ctx.scale(60, 150)
        if hostile_dir is not None:
            hd_cls, hd = hostile_dir
            for manifest, modes in ALL_TEMPLATES:
                for mode in modes:
                    for extra in ('', '?base=0', '?timeline=1' if manifest in ('hand_made.mpd', 'manifest_a.mpd') else '?abr=0'):
                        if mode == 'live':
                            env.clock.set(datetime.datetime(2024, 5, 5, 5, 5, 5, tzinfo=datetime.timezone.utc))
                        url = f'/dash/{mode}/{_q(hd, safe="")}/{manifest}{extra}'
                        r = env.get(url, client=rend.client)
                        res.evaluations += 1
                        res.count('hostile_directory.requests')
                        if r.status_code != 200:
                            res.count(f'hostile_directory.status.{r.status_code}')
                            continue
                        case = {'route': 'single', 'stream': hd, 'manifest': manifest, 'mode': mode, 'params': {}, 'loc': 'directory'}
                        root = check_doc(res, case, r.data, url, 'mpd', 'directory', hd_cls)
                        if root is not None:
                            res.count('hostile_directory.documents')
                            # every template URL must still resolve inside this stream: no stray $identifier$
                            import re as _re
                            for el in root.iter(R.Q + 'SegmentTemplate'):
                                for att in ('media', 'initialization'):
                                    v = el.get(att) or ''
                                    ids = set(_re.findall(r'\$([A-Za-z]*)(?:%[^$]*)?\$', v))
                                    bad = ids - {'RepresentationID', 'Number', 'Time', 'Bandwidth', ''}
                                    if bad:
                                        res.violation('hostile-directory-adds-template-identifier',
                                                      f'{url}: SegmentTemplate@{att}={v[:120]!r} has identifiers {sorted(bad)}',
                                                      {'case': case, 'hostile': hd_cls})
        if hostile_mps is not None:
            import re as _re2
            for mode in ('vod', 'live'):
                for extra in ('', '?base=0', '?timeline=1', '?base=0&drm=all'):
                    env.clock.set(datetime.datetime(2024, 5, 5, 5, 5, 5, tzinfo=datetime.timezone.utc))
                    url = f'/mps/{mode}/{_q(hostile_mps, safe="")}/hand_made.mpd{extra}'
                    r = env.get(url, client=rend.client)
                    res.evaluations += 1
                    res.count('hostile_mps.requests')
                    if r.status_code != 200:
                        res.count(f'hostile_mps.status.{r.status_code}')
                        continue
                    case = {'route': 'mps', 'stream': hostile_mps, 'manifest': 'hand_made.mpd', 'mode': mode, 'params': {}, 'loc': 'mps-name'}
                    root = check_doc(res, case, r.data, url, 'mpd', 'mps-name', hd_cls)
                    if root is not None:
                        res.count('hostile_mps.documents')
                        for el in root.iter(R.Q + 'SegmentTemplate'):
                            for att in ('media', 'initialization'):
                                v = el.get(att) or ''
                                bad = set(_re2.findall(r'\$([A-Za-z]*)(?:%[^$]*)?\$', v)) - {'RepresentationID', 'Number', 'Time', 'Bandwidth', ''}
                                if bad:
                                    res.violation('hostile-mps-name-adds-template-identifier',
                                                  f'{url}: SegmentTemplate@{att}={v[:120]!r} has identifiers {sorted(bad)}',
                                                  {'case': case, 'hostile': hd_cls})
        for rnd in range(rounds):
            cases = gen_cases(ctx, per_round)
            # ---- pass 1: benign metadata
            base: dict[int, tuple] = {}
            for i, case in enumerate(cases):
                b_extra, b_host = placement(case['loc'], 'benign-value', 'benign.example.test')
                status, body, url, kind = rend.render(case, b_extra, b_host)
                res.evaluations += 1
                if status != 200:
                    res.count(f'status.{status}')
                    continue
                root = check_doc(res, case, body, url, kind, 'benign', None)
                if root is not None:
                    base[i] = (R.skeleton(root), url)
            # ---- pass 2: one hostile string per round, placed per case
            hcls, hostile = HOSTILE[(rnd * ctx.nshards + ctx.shard + ctx.seed) % len(HOSTILE)]
            stored_done: dict[tuple, bool] = {}
            for loc_group in ('title', 'playready_la_url_stored', 'marlin_la_url_stored', None):
                # set stored metadata once per group through the real endpoint
                if loc_group is not None:
                    for s in ('bbb', 'tears'):
                        t, p, m = benign[s]
                        ok = set_metadata(
                            media, env, spk[s],
                            hostile if loc_group == 'title' else t,
                            ('https://lic.example.test/pr?x=' + hostile) if loc_group == 'playready_la_url_stored' else p,
                            ('ms3://lic.example.test/' + hostile) if loc_group == 'marlin_la_url_stored' else m)
                        res.count('metadata.stored' if ok else 'metadata.refused')
                        stored_done[(loc_group, s)] = ok
                for i, case in enumerate(cases):
                    if i not in base:
                        continue
                    loc = case['loc']
                    if (loc_group is None) != (loc not in ('title', 'playready_la_url_stored', 'marlin_la_url_stored')):
                        continue
                    if loc_group is not None and loc != loc_group:
                        continue
                    extra = None
                    host = None
                    expect_in = None
                    if loc_group is not None:
                        if not stored_done.get((loc_group, case['stream']), False):
                            continue
                        if loc == 'title' and case['route'] != 'mps':
                            expect_in = 'title'
                    else:
                        extra, host = placement(loc, hostile, 'evil"<&>\'.example.test')
                    status, body, url, kind = rend.render(case, extra, host)
                    res.evaluations += 1
                    if status is None:
                        res.count('hostile.client_refused')
                        continue
                    if status != 200:
                        res.count(f'hostile.status.{status}')
                        if status >= 500:
                            res.count('hostile.5xx (left to C16)')
                        continue
                    root = check_doc(res, case, body, url, kind, loc, hcls)
                    if root is None:
                        continue
                    res.count('skeleton.compared')
                    sk = R.skeleton(root)
                    if sk != base[i][0]:
                        res.violation(f'hostile-string-changes-document-structure-{loc}',
                                      f'{url}: element skeleton differs from the benign render {base[i][1]} '
                                      f'(hostile class {hcls})', {'case': case, 'hostile': hcls})
                    elif expect_in == 'title':
                        t = root.find(f'{R.Q}ProgramInformation/{R.Q}Title')
                        if t is not None:
                            if (t.text or '').strip() != hostile.strip():
                                res.violation('hostile-title-not-recovered-verbatim',
                                              f'{url}: Title reads {(t.text or "")[:80]!r}', {'case': case, 'hostile': hcls})
                            else:
                                res.count('hostile.recovered')
                    elif loc == 'unknown_query' and kind == 'mpd':
                        locs = [e.text or '' for e in root.iter(R.Q + 'Location')]
                        from urllib.parse import urlsplit, parse_qs
                        for text in locs:
                            q = parse_qs(urlsplit(text.strip()).query, keep_blank_values=True)
                            if 'zz_unknown' in q:
                                if q['zz_unknown'] == [hostile]:
                                    res.count('hostile.recovered')
                                else:
                                    res.violation('hostile-query-value-not-recovered-verbatim',
                                                  f'{url}: Location carries zz_unknown={q["zz_unknown"][0][:60]!r}',
                                                  {'case': case, 'hostile': hcls})
                    res.keys.add(f'{case["manifest"]}|{case["mode"]}|{case["route"]}|{loc}|{hcls}')
            # restore benign metadata
            for s in ('bbb', 'tears'):
                set_metadata(media, env, spk[s], *benign[s])
            if ctx.out_of_time():
                res.notes.append(f'stopped after {rnd + 1} rounds (time budget)')
                break
        reach.report(res)
    finally:
        env.close()
    return res


def placement(loc: str, text: str, hostname: str):
    """-> (extra query parameters, Host header) that put `text` at query/header location `loc`"""
    if loc in ('playready__la_url', 'marlin__la_url', 'clearkey__la_url'):
        return {loc: 'https://lic.example.test/q?y=' + text}, None
    if loc == 'time_value':
        return {'time_value': text}, None
    if loc == 'ntp_servers':
        return {'ntp_servers': text.replace(',', ';')}, None
    if loc == 'unknown_query':
        return {'zz_unknown': text, 'foo': text[:40]}, None
    if loc == 'host':
        # a Host header can carry only a restricted alphabet over HTTP; use the hostile
        # characters that a lenient server could still receive
        return None, hostname
    return None, None


def check_doc(res: ShardResult, case: dict, body: bytes, url: str, kind: str, loc: str, hcls):
    """well-formedness + structural rules; returns the parsed root or None"""
    rp = {'case': case, 'url': url, 'hostile': hcls}
    try:
        root = R.parse(body)
    except Exception as err:
        where = 'benign' if loc == 'benign' else f'hostile-{loc}'
        res.violation(f'document-not-well-formed-{where}',
                      f'{url}: {type(err).__name__}: {str(err)[:200]}', rp)
        return None
    res.count('docs.checked')
    if kind == 'patch':
        res.count('docs.patch')
    if case['route'] == 'mps':
        res.count('docs.mps')
    for mech, msg in R.check(root):
        res.violation(mech, f'{url}: {msg}', rp)
    p = case['params']
    res.keys.add(f'{case["manifest"]}|{case["mode"]}|{case["route"]}|{kind}|'
                 f'{"tl" if p.get("timeline") == "1" else "num"}|{"drm" if "drm" in p else "clear"}|'
                 f'{"ev" if "events" in p else ""}')
    if len(res.samples) < 4:
        res.samples.append({'url': url, 'kind': kind, 'root': R.local(root.tag), 'bytes': len(body)})
    return root
