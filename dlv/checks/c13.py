"""C13 -- byte-range requests return exactly the requested bytes.

HTTP-boundary monitor: for each range-capable URL the unranged body is fetched once at a
frozen virtual instant; every Range header of an exhaustive boundary grid, a malformed
corpus and random mutations is then sent to the same URL at the same instant and the
(status, Content-Range, body) triple is judged by an independent RFC 7233 model.
"""
from __future__ import annotations

import datetime

from dlv.core import ShardCtx, ShardResult
from dlv.oracles import rfc7233

PROPERTY = 'C13'
LEVEL = 'exploration'
RULE = ('URLs: live/vod media segments by $Number$ and $Time$ (clear, encrypted, with DRM/event options), '
        'multi-period media segments, on-demand files (range mandatory). Headers per URL: exhaustive grid '
        'first,last in {0,1,L/2,L-2,L-1,L,L+1,2^31,2^63} incl. open-ended, suffix in {0,1,L-1,L,L+1,10^12}; '
        'malformed corpus (other units, lists, whitespace, signs, hex, empty, 4 kB); random mutations. '
        'Non-trivial = a header was sent and judged; distinct = (route kind, RFC class, range shape, status).')
ASSUMPTIONS = [
    'oracle: own RFC 7233 single-range model; reference body = unranged GET of the same URL at the same virtual instant',
    'an invalid header (incl. last < first, and text the server reads leniently) may be refused with 400 or with 416 + bytes */L, or served self-consistently',
    'init segments do not honour ranges (they ignore the header) and are outside the property',
    'shims + werkzeug test client as HTTP boundary',
]
REQUIRED_COUNTERS = ['judged.sat', 'judged.unsat', 'judged.invalid', 'judged.absent', 'route.segment',
                     'route.odvod', 'reach.get_http_range']
EXHAUSTIVE = {'quick': False, 'thorough': False}

MALFORMED = [
    '', 'bytes', 'bytes=', 'bytes=-', 'bytes=--1', 'bytes=1--2', 'bytes=a-b', 'bytes=0x10-0x20',
    'bytes=1-2-3', 'bytes= 1-2', 'bytes=1 -2', 'bytes=1- 2', 'bytes=+1-2', 'bytes=1-+2', 'bytes=1_0-2_0',
    'bytes=1.5-2', 'bytes=1e2-', 'items=0-5', 'byte=0-5', 'bytes:0-5', 'bytes 0-5', 'bytes=0-5,10-15',
    'bytes=0-0,-1', 'bytes=,', 'bytes=0-5;', 'bytes=٠-٥', 'bytes=-١', 'BYTES=0-5', 'Bytes=-5',
    ' bytes=0-5 ', '\tbytes=0-5', 'bytes=0-5\t', 'bytes=\t0-5', 'bytes=0-' + '9' * 400, 'bytes=' + '1' * 4000 + '-',
    'bytes=-' + '9' * 30, 'none', 'bytes=*-5', 'bytes=5-*', 'bytes=*/5', 'bytes=0-5/100', 'seconds=1-2',
    'bytes=-0', 'bytes=00000-00005', 'bytes=5-2', 'bytes=0-0', 'bytes=18446744073709551616-',
    'bytes=-18446744073709551616',
]


def shards(tier: str) -> int:
    return 16


def grid(L: int) -> list[str]:
    pts = sorted({0, 1, L // 2, max(0, L - 2), max(0, L - 1), L, L + 1, 2**31, 2**63})
    out = []
    for a in pts:
        out.append(f'bytes={a}-')
        for b in pts:
            out.append(f'bytes={a}-{b}')
    for n in sorted({0, 1, max(0, L - 1), L, L + 1, 10**12}):
        out.append(f'bytes=-{n}')
    return out


def mutate(rng, header: str) -> str:
    ops = rng.randrange(6)
    if not header:
        return rng.choice(MALFORMED)
    i = rng.randrange(len(header))
    if ops == 0:
        return header[:i] + header[i + 1:]
    if ops == 1:
        return header[:i] + rng.choice('0123456789-=, \tbytesBYTES+._x*/') + header[i:]
    if ops == 2:
        return header[:i] + rng.choice('0123456789-=,') + header[i + 1:]
    if ops == 3:
        return header + rng.choice(['-', ',', '0', ' ', '=', '-5', ',1-2'])
    if ops == 4:
        return header.replace('-', rng.choice(['--', '', '- ', ' -']), 1)
    return header.upper() if rng.random() < 0.5 else header.replace('bytes', rng.choice(['Bytes', 'byte', 'bits', '']))


def build_urls(env, rng, tier: str) -> list[dict]:
    """-> [{'url', 'now', 'kind', 'mandatory'}]"""
    now = datetime.datetime(2024, 5, 17, 11, 23, 45, 250000, tzinfo=datetime.timezone.utc)
    start = '2024-05-17T00:00:00Z'
    # elapsed = 41025.25 s -> number ~ 10256
    n = 10250 + rng.randrange(5)
    urls = [
        {'url': f'/dash/live/bbb/bbb_v7/{n}.m4v?start={start}', 'kind': 'segment'},
        {'url': f'/dash/live/bbb/bbb_a1/{n}.m4a?start={start}', 'kind': 'segment'},
        {'url': f'/dash/live/bbb/bbb_t1/{4100 + rng.randrange(2)}.mp4?start={start}', 'kind': 'segment'},
        {'url': f'/dash/live/bbb/bbb_v7_enc/{n}.m4v?start={start}&drm=playready&playready__piff=1', 'kind': 'segment'},
        {'url': f'/dash/live/bbb/bbb_a1_enc/{n}.m4a?start={start}&drm=all-moov-cenc', 'kind': 'segment'},
        {'url': f'/dash/live/bbb/bbb_v7/time/{(n - 1) * 960}.m4v?start={start}', 'kind': 'segment'},
        {'url': f'/dash/live/bbb/bbb_v6/{n}.m4v?start={start}&events=ping&ping__interval=50', 'kind': 'segment'},
        {'url': f'/dash/vod/bbb/bbb_v7/{1 + rng.randrange(10)}.m4v', 'kind': 'segment'},
        {'url': f'/dash/vod/tears/tears_a1/{1 + rng.randrange(16)}.m4a', 'kind': 'segment'},
        {'url': f'/dash/vod/bbb/bbb_a1/time/{176128 * rng.randrange(9)}.m4a', 'kind': 'segment'},
        # options that rewrite the encoded segment in place after it has been built
        {'url': '/dash/vod/bbb/bbb_v7/3.m4v?vcorrupt=3', 'kind': 'segment'},
        {'url': f'/dash/live/bbb/bbb_v6/{n}.m4v?start={start}&vcorrupt={n}&frames=2', 'kind': 'segment'},
        {'url': '/dash/odvod/bbb/bbb_t1.mp4', 'kind': 'odvod', 'mandatory': True},
        {'url': '/dash/odvod/bbb/bbb_a1.m4a', 'kind': 'odvod', 'mandatory': True},
        {'url': '/dash/odvod/tears/tears_v1.m4v', 'kind': 'odvod', 'mandatory': True},
    ]
    if getattr(env, 'extra', {}).get('edited'):
        urls.append({'url': '/dash/odvod/edt/edt_a1.m4a', 'kind': 'odvod', 'mandatory': True, 'blob_path': env.extra['edited']})
    mps = env.extra.get('mps') if hasattr(env, 'extra') else None
    if mps:
        urls.append({'url': mps, 'kind': 'mps-segment'})
    for u in urls:
        u['now'] = now.isoformat()
    return urls


def run_shard(ctx: ShardCtx) -> ShardResult:
    from dlv.appenv import AppEnv
    from dlv.reach import Reach
    res = ShardResult()
    env = AppEnv()
    try:
        env.add_fixture_stream('bbb')
        env.add_fixture_stream('tears')
        env.extra = {}
        try:
            from dlv.mps import add_simple_mps
            env.extra['mps'] = add_simple_mps(env)
        except ImportError:
            pass
        # a media file whose track id was edited through the real endpoint: the server rewrites the file (only
        # the indexed fragments are copied, so the new file is shorter than the upload when bytes lie outside
        # them: here a trailing mfra box) and stores a new blob row for it
        edited = None
        try:
            from dlv.appenv import FIXTURES
            from dlv.session import UserSession
            from dlv.mgmt import Harvest, execute, op_edit_media
            import struct as _st
            a1_mfra = (FIXTURES / 'bbb' / 'bbb_a1.mp4').read_bytes() + _st.pack('>I', 24) + b'mfra' + b'\0' * 16
            spk_e = env.add_stream('edt', title='Edited media', files={'edt_a1': a1_mfra,
                                                                        'edt_v7': FIXTURES / 'bbb' / 'bbb_v7.mp4'}, copy=True)
            with env.app.app_context():
                mfid = env.models.MediaFile.get(name='edt_a1').pk
            sess = UserSession(env, *env.MEDIA)
            r_e = execute(sess, Harvest(sess, spk_e), op_edit_media(spk_e, mfid, 9, 'eng'))
            with env.app.app_context():
                env.models.db.session.remove()
                mf = env.models.MediaFile.get(name='edt_a1')
                path = env.blob_folder / 'edt' / mf.blob.filename
                if r_e.status_code < 400 and mf.track_id == 9 and path.exists():
                    edited = str(path)
                    res.count('edited_media.ready')
        except Exception as err:
            res.notes.append(f'edited media not set up: {err!r}')
        env.extra['edited'] = edited
        reach = Reach([('dashlive.server.requesthandler.base', 'RequestHandlerBase.get_http_range'),
                       ('dashlive.server.requesthandler.media_requests', 'OnDemandMedia.get')])
        client = env.client()
        if ctx.replay:
            r = ctx.replay['replay']
            urls = [r['target']]
            plan = {0: [r['header']]}
        else:
            urls = build_urls(env, ctx.rng, ctx.tier)
            plan = {}
        for ui, target in enumerate(urls):
            env.clock.set(datetime.datetime.fromisoformat(target['now']))
            mandatory = target.get('mandatory', False)
            # reference body
            if mandatory:
                key = tuple(target['url'].split('/')[3:5])
                directory, fname = key[0], key[1].rsplit('.', 1)[0]
                full = env.stored[(directory, fname)]
                if target.get('blob_path'):
                    # a file that was edited through the management page: the representation is the rewritten file
                    full = open(target['blob_path'], 'rb').read()
            else:
                r0 = env.get(target['url'], client=client)
                if r0.status_code != 200:
                    res.inconclusive.append(f'reference GET {target["url"]} -> {r0.status_code}')
                    continue
                full = r0.data
            L = len(full)
            if ui in plan:
                headers = plan[ui]
            else:
                headers = [None] + grid(L) + MALFORMED
                nmut = ctx.scale(3000, 60000)
                base = grid(L) + MALFORMED
                for _ in range(nmut):
                    h = ctx.rng.choice(base)
                    for _ in range(ctx.rng.randrange(1, 3)):
                        h = mutate(ctx.rng, h)
                    headers.append(h)
                # each shard takes a slice of the headers (grid is covered exhaustively across shards)
                n_fixed = len([None] + grid(L) + MALFORMED)
                fixed = [h for i, h in enumerate(headers[:n_fixed]) if i % ctx.nshards == ctx.shard or h is None]
                headers = fixed + [h for i, h in enumerate(headers[n_fixed:]) if i % ctx.nshards == ctx.shard]
                n_fixed = len(fixed)
            res.count('route.' + ('odvod' if mandatory else 'segment'))
            # every URL gets the whole boundary grid; the mutated headers share the time budget evenly
            # between the URLs (so that no route is starved when the budget is short)
            import time as _time
            url_deadline = ctx.t0 + ctx.budget_s * (ui + 1) / max(1, len(urls))
            for hi, h in enumerate(headers):
                if url_deadline is not None and ui not in plan and hi >= n_fixed and _time.monotonic() > url_deadline:
                    res.count('mutated_headers.skipped_for_time', len(headers) - hi)
                    break
                if h is not None:
                    try:
                        h.encode('latin-1')
                    except UnicodeEncodeError:
                        h_send = h.encode('utf-8').decode('latin-1')
                    else:
                        h_send = h
                else:
                    h_send = None
                hdrs = {} if h_send is None else {'Range': h_send}
                try:
                    resp = env.get(target['url'], client=client, headers=hdrs)
                except ValueError as err:
                    # werkzeug refuses to build the request (e.g. newline in header): never reaches the server
                    res.count('client_refused')
                    continue
                verdict = rfc7233.classify(h_send, L)
                res.count('judged.' + verdict[0])
                problem = rfc7233.judge(h_send, full, resp.status_code, resp.headers.get('Content-Range'),
                                        resp.data, range_mandatory=mandatory)
                shape = rfc7233.shape(h_send, L) if verdict[0] in ('sat', 'unsat') else verdict[-1]
                res.case(f'{target["kind"]}|{verdict[0]}|{shape}|{resp.status_code}',
                         {'url': target['url'], 'range': h, 'length': L, 'status': resp.status_code,
                          'content_range': resp.headers.get('Content-Range')} if ctx.rng.random() < 0.002 else None)
                if problem is not None:
                    mech, msg = problem
                    res.violation(mech, f'{msg} url={target["url"]}',
                                  {'target': target, 'header': h}, exception=env.rec.last_exception)
        reach.report(res)
    finally:
        env.close()
    return res
