"""C18 -- the bundled validator accepts what the server generates and flags corruptions.

The real DashValidator runs in-process against the real WSGI app through an HttpClient
adapter (synchronous inside the coroutine, inline worker pool, virtual clock for both the
server and the validator).  Clean sessions must terminate without errors; in corrupted
sessions the adapter rewrites exactly one response (fault catalogue, rewritten with the
independent ISO-BMFF walker / lxml) and the validator must report an error located at the
corrupted element.
"""
from __future__ import annotations

import asyncio
import datetime
import logging
import struct

from dlv.core import ShardCtx, ShardResult

PROPERTY = 'C18'
LEVEL = 'fault_enumeration'
RULE = ('clean sessions: template x supported mode x option vector (drm, timeline, abr, acodec, base, events, patch, mup) x '
        'clock x stream {bbb fixture; miv = 8 byte IV video + audio re-packaged with 16 byte IVs}; corrupted sessions: the same plus one fault from the catalogue {tfdt +/- one segment, mfhd +/- 1, '
        'trun data_offset beyond mdat, saio offset +/- 8, mvhd / trex / tenc removed from init, one S removed / shifted, '
        'availabilityStartTime / publishTime / minBufferTime / profiles removed, availabilityStartTime changed on refresh, '
        'HTTP 404 for one segment, wrong Content-Type} applied to one eligible response. Non-trivial = the validator ran to '
        'completion; distinct = (template, mode, option signature, fault, outcome).')
ASSUMPTIONS = [
    'the validator is given the server-side representation info exactly as upstream\'s ViewsTestDashValidator does',
    'located at the corrupted element = the error\'s line range intersects the source lines of the element owning the corrupted resource (Representation / AdaptationSet / Period for segments, MPD for attributes), or its message names the corrupted URL',
    'a session is bounded by 6 validate/refresh iterations under the virtual clock and a 120 s wall watchdog (watchdog => inconclusive)',
    'shims + werkzeug test client as HTTP boundary; the validator clock (manifest.py, validator.py, asyncio.sleep) is bound to the same virtual clock as the server',
]
REQUIRED_COUNTERS = ['sessions.clean', 'sessions.corrupted', 'faults.applied', 'faults.detected',
                     'reach.validate', 'reach.validate_segment', 'reach.refresh']

UTC = datetime.timezone.utc
SEGMENT_FAULTS = ['tfdt-plus', 'tfdt-minus', 'mfhd-plus', 'trun-offset', 'saio-offset', 'http-404', 'content-type']
INIT_FAULTS = ['init-no-mvhd', 'init-no-trex', 'init-no-tenc']
MANIFEST_FAULTS = ['timeline-remove-s', 'timeline-shift-t', 'no-availabilityStartTime', 'no-publishTime',
                   'no-minBufferTime', 'no-profiles', 'ast-changes-on-refresh', 'no-bandwidth']
# faults in an MPD patch document (the refresh of a patch=1 session)
PATCH_FAULTS = ['patch-no-mpdId', 'patch-original-publish-time', 'patch-selector-misses']


def shards(tier: str) -> int:
    return 16


class Resp:
    def __init__(self, status, headers, body: bytes) -> None:
        self.status_code = self.status_int = status
        self.status = str(status)
        self.headers = headers
        self._body = body

    def get_data(self, as_text: bool = False):
        return self._body.decode('utf-8', 'replace') if as_text else self._body

    @property
    def text(self):
        return self.get_data(True)

    @property
    def content(self):
        return self._body

    @property
    def json(self):
        import json
        return json.loads(self._body)


class Adapter:
    """HttpClient for the validator over the WSGI test client; can rewrite one response."""

    def __init__(self, env) -> None:
        self.env = env
        self.client = env.client()
        self.fault: str | None = None
        self.applied: dict | None = None
        self.candidates = 0
        self.pick = 0
        self.manifest_fetches = 0
        self.requests = 0
        self.media_seen: dict[str, int] = {}
        self.current_is_first = False
        self.after_refresh = False          # only corrupt the first new segment of a representation after a refresh
        self.all_manifest_fetches = 0
        self.since_refresh: set[str] = set()

    def is_whole_stored_segment(self, path: str, resp) -> bool:
        """206 answers of the on-demand profile: true when the range is exactly one stored media segment"""
        from dlv.oracles import isobmff as ib
        import re
        m = re.match(r'bytes (\d+)-(\d+)/', resp.headers.get('Content-Range', ''))
        if not m:
            return False
        a, b = int(m.group(1)), int(m.group(2)) + 1
        for (directory, name), buf in self.env.stored.items():
            if re.search(r'/' + re.escape(name) + r'\.', path):
                if not hasattr(self, '_ranges'):
                    self._ranges = {}
                if name not in self._ranges:
                    self._ranges[name] = {(sg.start, sg.end) for sg in ib.index_file(buf).segments}
                return (a, b) in self._ranges[name]
        return False

    def default_duration(self, url: str) -> int:
        """trex default_sample_duration of the stored file the URL names (own walker)"""
        from dlv.oracles import isobmff as ib
        import re
        for (directory, name), buf in self.env.stored.items():
            if re.search(r'/' + re.escape(name) + r'[/.]', url):
                if not hasattr(self, '_trex'):
                    self._trex = {}
                if name not in self._trex:
                    sf = ib.index_file(buf)
                    self._trex[name] = (sf.trex or {}).get('default_sample_duration', 0)
                return self._trex[name]
        return 0

    def _path(self, url: str) -> str:
        from urllib.parse import urlsplit
        s = urlsplit(url)
        return s.path + ('?' + s.query if s.query else '')

    async def get(self, url, headers=None, params=None, status=None, xhr=False):
        return self._do('GET', url, headers)

    async def head(self, url, headers=None, params=None, status=None, xhr=False):
        return self._do('HEAD', url, headers)

    def _do(self, method, url, headers):
        self.requests += 1
        r = self.env.get(self._path(url), client=self.client, method=method, headers=headers or {})
        resp = Resp(r.status_code, dict(r.headers), r.data)
        if self.fault and self.applied is None and method == 'GET' and r.status_code in (200, 206):
            self.maybe_corrupt(url, resp)
        return resp

    # ------------------------------------------------------------------ fault injection
    def maybe_corrupt(self, url: str, resp: Resp) -> None:
        from dlv.oracles import isobmff as ib
        f = self.fault
        path = self._path(url)
        is_manifest = path.split('?')[0].endswith('.mpd')
        is_init = '/init.' in path
        is_media = not is_manifest and not is_init and not path.startswith('/patch') and (
            path.startswith('/dash/') or path.startswith('/mps/'))
        if is_manifest:
            self.all_manifest_fetches += 1
            self.since_refresh = set()
        if f in PATCH_FAULTS:
            if not path.startswith('/patch'):
                return
            import re as _re
            text = resp._body.decode('utf-8')
            if f == 'patch-no-mpdId':
                new, n = _re.subn(r'\smpdId="[^"]*"', '', text, count=1)
                what = 'Patch@mpdId removed'
            elif f == 'patch-original-publish-time':
                m = _re.search(r'originalPublishTime="(\d{4})-', text)
                new, n = (text.replace(m.group(0), f'originalPublishTime="{int(m.group(1)) - 4}-', 1), 1) if m else (text, 0)
                what = 'Patch@originalPublishTime moved back four years'
            else:
                new, n = _re.subn(r'sel="/MPD/Period', 'sel="/MPD/Periodx', text, count=1)
                what = 'first selector below /MPD/Period names an element that does not exist'
            if n:
                resp._body = new.encode()
                self.applied = {'fault': f, 'url': url, 'what': what}
            return
        if f in MANIFEST_FAULTS:
            if not is_manifest:
                return
            self.manifest_fetches += 1
            if f == 'ast-changes-on-refresh' and self.manifest_fetches < 2:
                return
            new = corrupt_manifest(resp._body, f)
            if new is not None:
                resp._body = new[0]
                self.applied = {'fault': f, 'url': url, 'what': new[1]}
            return
        if f in INIT_FAULTS and is_init:
            target = {'init-no-mvhd': b'mvhd', 'init-no-trex': b'trex', 'init-no-tenc': b'tenc'}[f]
            try:
                root = ib.parse_file(resp._body)
            except Exception:
                return
            for b in root.walk():
                if b.type == target:
                    self.candidates += 1
                    if self.candidates <= self.pick:
                        return
                    m = bytearray(resp._body)
                    m[b.start + 4:b.start + 8] = b'free'
                    resp._body = bytes(m)
                    self.applied = {'fault': f, 'url': url, 'what': f'{target.decode()} -> free at {b.start}'}
                    return
            return
        if is_media:
            import re as _re
            m_ = _re.search(r'/([a-z]+_[avt]\d+(?:_enc)?)/', path)
            rep_key = m_.group(1) if m_ else path
            if resp.status_code == 206 and not self.is_whole_stored_segment(path, resp):
                return          # index / init range of an on-demand file: not a media segment fetch
            self.media_seen[rep_key] = self.media_seen.get(rep_key, 0) + 1
            self.current_is_first = self.media_seen[rep_key] == 1
            first_since_refresh = rep_key not in self.since_refresh
            self.since_refresh.add(rep_key)
            if self.after_refresh and not (self.all_manifest_fetches >= 2 and first_since_refresh
                                           and not self.current_is_first):
                return
        if f in SEGMENT_FAULTS and is_media:
            if resp.status_code not in (200, 206):
                return
            if resp.status_code == 206 and not self.is_whole_stored_segment(path, resp):
                # an index or probe range of an on-demand file, not the fetch of one media segment
                return
            try:
                frag = ib.read_fragment(resp._body)
                root = ib.parse_file(resp._body)
            except Exception:
                return
            traf = root.find(b'moof', b'traf')
            if f == 'saio-offset' and (frag.saio is None or frag.senc_box is None):
                return
            self.candidates += 1
            if self.candidates <= self.pick:
                return
            m = bytearray(resp._body)
            what = ''
            if f in ('tfdt-plus', 'tfdt-minus'):
                b = traf.find(b'tfdt')
                ver, val = frag.tfdt
                dur = sum(s.get('duration', frag.tfhd.get('default_sample_duration', self.default_duration(url)))
                          for s in frag.trun['samples']) or 1000
                nv = val + dur if f == 'tfdt-plus' else max(0, val - dur) if val >= dur else val + 2 * dur
                if ver == 1:
                    m[b.body + 4:b.body + 12] = struct.pack('>Q', nv)
                else:
                    m[b.body + 4:b.body + 8] = struct.pack('>I', nv & 0xFFFFFFFF)
                what = f'tfdt {val} -> {nv}'
            elif f == 'mfhd-plus':
                b = root.find(b'moof', b'mfhd')
                m[b.body + 4:b.body + 8] = struct.pack('>I', frag.sequence_number + 7)
                what = f'mfhd {frag.sequence_number} -> {frag.sequence_number + 7}'
            elif f == 'trun-offset':
                b = traf.find(b'trun')
                if 'data_offset' not in frag.trun:
                    self.candidates -= 1
                    return
                nv = frag.trun['data_offset'] + len(resp._body) + 4096
                m[b.body + 8:b.body + 12] = struct.pack('>i', nv)
                what = f'trun.data_offset {frag.trun["data_offset"]} -> {nv}'
            elif f == 'saio-offset':
                b = traf.find(b'saio')
                off = frag.saio['offsets'][0]
                pos = b.end - (4 if frag.saio['version'] == 0 else 8)
                if frag.saio['version'] == 0:
                    m[pos:pos + 4] = struct.pack('>I', off + 8)
                else:
                    m[pos:pos + 8] = struct.pack('>Q', off + 8)
                what = f'saio {off} -> {off + 8}'
            elif f == 'http-404':
                resp.status_code = resp.status_int = 404
                resp._body = b'Not Found'
                what = '404'
            elif f == 'content-type':
                resp.headers = {**resp.headers, 'Content-Type': 'text/plain'}
                what = 'Content-Type text/plain'
            if f not in ('http-404', 'content-type'):
                resp._body = bytes(m)
            self.applied = {'fault': f, 'url': url, 'what': what, 'first_of_representation': self.current_is_first}


def first_suffix(applied: dict, fault: str) -> str:
    """The recorded finding is narrow: in the very first segment the validator checks of a
    Representation it has no expectation for the quantity the URL does NOT carry -- the decode time
    of a $Number$ URL, the sequence number of a $Time$ URL.  A wrong tfdt behind a $Time$ URL or a
    wrong mfhd behind a $Number$ URL is checkable from the URL alone and gets no suffix."""
    if not applied.get('first_of_representation'):
        return ''
    by_time = '/time/' in applied.get('url', '')
    if fault.startswith('tfdt') and by_time:
        return ''
    if fault.startswith('mfhd') and not by_time:
        return ''
    return '-first-validated-segment-of-representation'


def corrupt_manifest(body: bytes, fault: str):
    """-> (new body, description) or None when the fault does not apply to this document"""
    from lxml import etree
    import re
    text = body.decode('utf-8')
    if fault.startswith('no-'):
        attr = fault[3:]
        new, n = re.subn(r'\s' + attr + r'="[^"]*"', '', text, count=1)
        return (new.encode(), f'MPD@{attr} removed') if n else None
    if fault == 'ast-changes-on-refresh':
        m = re.search(r'availabilityStartTime="(\d{4})-', text)
        if not m:
            return None
        new = text.replace(m.group(0), f'availabilityStartTime="{int(m.group(1)) - 4}-', 1)
        return new.encode(), 'availabilityStartTime moved back four years'
    if fault in ('timeline-remove-s', 'timeline-shift-t'):
        ss = list(re.finditer(r'<S [^>]*/>', text))
        if fault == 'timeline-remove-s':
            # remove an S in the middle of a timeline that has at least 3 entries (creates a gap)
            tl = re.search(r'<SegmentTimeline>(.*?)</SegmentTimeline>', text, re.S)
            if not tl:
                return None
            inner = list(re.finditer(r'<S [^>]*/>', tl.group(1)))
            if len(inner) < 3:
                # expand: turn r="N" into a gap by shifting instead
                return None
            victim = inner[1]
            start = tl.start(1) + victim.start()
            new = text[:start] + text[start + len(victim.group(0)):]
            return new.encode(), f'removed {victim.group(0)}'
        for s in ss:
            m = re.search(r't="(\d+)"', s.group(0))
            d = re.search(r'd="(\d+)"', s.group(0))
            if m and d:
                nv = int(m.group(1)) + int(d.group(1)) // 2 + 1
                repl = s.group(0).replace(m.group(0), f't="{nv}"')
                new = text[:s.start()] + repl + text[s.end():]
                return new.encode(), f'S@t {m.group(1)} -> {nv}'
        return None
    return None


class InlineGroup:
    def __init__(self, progress=None):
        self.progress = progress

    async def __aenter__(self):
        return self

    async def __aexit__(self, *a):
        return False

    def submit(self, fn, *args):
        fut = asyncio.get_running_loop().create_future()
        try:
            fut.set_result(fn(*args))
        except Exception as err:
            fut.set_exception(err)
        return fut


def make_pool():
    from dashlive.mpeg.dash.validator.pool import WorkerPool

    class InlinePool(WorkerPool):
        def group(self, progress=None):
            return InlineGroup(progress)

        def submit(self, fn, *args, **kwargs):
            fut = asyncio.get_running_loop().create_future()
            try:
                fut.set_result(fn(*args, **kwargs))
            except Exception as err:
                fut.set_exception(err)
            return fut

        async def wait_for_completion(self, timeout: int = 0):
            return []
    return InlinePool()


class Session:
    def __init__(self, env, res: ShardResult) -> None:
        self.env, self.res = env, res

    def run(self, case: dict, fault: str | None, pick: int = 0, after_refresh: bool = False):
        """-> dict(outcome, errors[], applied, iterations, manifest_text)"""
        from dashlive.mpeg.dash.validator import DashValidator, ValidatorOptions
        from dashlive.utils.date_time import RelaxedDateTime
        from dlv.livewalk import qs
        from dlv import guard
        env = self.env
        now = datetime.datetime.fromisoformat(case['now'])
        env.clock.set(now)
        url = f"http://localhost/dash/{case['mode']}/{case['stream']}/{case['manifest']}" + qs(case['params'])
        adapter = Adapter(env)
        adapter.fault = fault
        adapter.pick = pick
        adapter.after_refresh = after_refresh
        log = logging.getLogger('dlv.c18')
        log.setLevel(logging.CRITICAL)
        opts = ValidatorOptions(duration=case.get('duration', 8), encrypted='drm' in case['params'],
                                pool=make_pool(), log=log, pretty=bool(case.get('pretty')),
                                start_time=RelaxedDateTime.now(UTC).replace(
                                    year=now.year, month=now.month, day=now.day, hour=now.hour, minute=now.minute,
                                    second=now.second, microsecond=now.microsecond))
        dv = DashValidator(url=url, http_client=adapter, mode=case['mode'], options=opts)
        out = {'errors': [], 'applied': None, 'iterations': 0, 'outcome': 'ok', 'lines': []}

        async def go():
            loaded = await dv.load()
            if not loaded:
                return
            with env.app.app_context():
                for mf in env.models.MediaFile.all():
                    if mf.representation is not None:
                        dv.set_representation_info(mf.representation)
            # the loop of upstream's own driver (validator/basic.py run()): keep validating and refreshing
            # until the requested duration has been covered; errors are read at the end of the session
            max_loops = 100 if case['mode'] == 'live' else 2
            it = 0
            out['lines_history'] = [list(dv.get_manifest_lines())]
            while not dv.finished() and max_loops > 0:
                it += 1
                out['iterations'] = it
                await dv.validate()
                # fetching and checking a window of segments takes real time; the virtual clock only moves
                # when the validator sleeps, and without a minimumUpdatePeriod it does not sleep at all
                env.clock.advance(1.0)
                if not dv.finished():
                    max_loops -= 1
                    await dv.sleep()
                    await dv.refresh()
                    if len(out['lines_history']) < 40:
                        out['lines_history'].append(list(dv.get_manifest_lines()))
                    with env.app.app_context():
                        for mf in env.models.MediaFile.all():
                            if mf.representation is not None:
                                dv.set_representation_info(mf.representation)
            out['finished'] = dv.finished()

        def runner():
            asyncio.run(go())
        try:
            outcome, value = guard.run_with_wall(runner, 120.0)
        except Exception as err:
            import traceback
            out['outcome'] = 'exception'
            out['exception'] = f'{type(err).__name__}: {err}'
            out['traceback'] = traceback.format_exc()[-1500:]
            out['applied'] = adapter.applied
            return out, dv
        if outcome == 'timeout':
            out['outcome'] = 'watchdog'
        out['errors'] = list(dv.get_errors())
        out['applied'] = adapter.applied
        out['finished'] = dv.finished()
        out['requests'] = adapter.requests
        out['lines'] = dv.get_manifest_lines()
        return out, dv


def normalise(msg: str) -> str:
    """validator message with every concrete value removed (stable mechanism name)"""
    import re
    m = re.sub(r'https?://\S+', 'URL', msg)
    m = re.sub(r'\b[a-z]+_[avt]\d+(_enc)?\b[:\w./$-]*', 'REP', m)
    m = re.sub(r'\d{4}-\d\d-\d\d[T ][\d:.+Z-]+', 'DATETIME', m)
    m = re.sub(r'\d+:\d\d:\d\d(\.\d+)?', 'DURATION', m)
    m = re.sub(r'0x[0-9a-fA-F]+|\b\d+(\.\d+)?\b', 'N', m)
    m = re.sub(r'\s+', ' ', m).strip()
    return m[:110]


def owner_lines(manifest_lines: list[str], url: str) -> tuple[int, int] | None:
    """source-line range of the Representation / AdaptationSet that owns a media URL (by representation id)"""
    import re
    from urllib.parse import urlsplit
    parts = urlsplit(url).path.split('/')
    rep_id = None
    for p in parts:
        if re.match(r'^[a-z]+_[avt]\d+(_enc)?$', p):
            rep_id = p
    if rep_id is None:
        return None
    text = '\n'.join(manifest_lines)
    try:
        from lxml import etree
        root = etree.fromstring(text.encode('utf-8'))
    except Exception:
        return None
    for rep in root.iter('{urn:mpeg:dash:schema:mpd:2011}Representation'):
        if rep.get('id') == rep_id:
            adp = rep.getparent()
            start = adp.sourceline
            end = start
            for el in adp.iter():
                if el.sourceline:
                    end = max(end, el.sourceline)
            return start, end
    return None


def gen_case(ctx: ShardCtx) -> dict:
    from dlv import workload as W
    from dlv.checks.c05 import ALL_TEMPLATES
    from dlv.livewalk import TIMELINE_TEMPLATES, DRM_TEMPLATES
    rng = ctx.rng
    manifest, modes = rng.choice(ALL_TEMPLATES)
    mode = rng.choice(modes)
    params: dict = {}
    if mode == 'live':
        now = W.calendar_instants(rng)
        delta = rng.choice([70, 130, 1000, 86400 * 3 + 17, rng.randrange(61, 10**6)]) + rng.random()
        params['start'] = W.isoz((now - datetime.timedelta(seconds=delta)).replace(microsecond=0))
        params['depth'] = str(rng.choice([16, 20, 30]))
        if rng.random() < 0.12:
            # a long window (the server admits up to one day)
            params['depth'] = str(rng.choice([1800, 86400, 90000]))
        if rng.random() < 0.5:
            params['mup'] = str(rng.choice([4, 8]))
    else:
        now = W.calendar_instants(rng)
    if manifest in TIMELINE_TEMPLATES and rng.random() < 0.5:
        params['timeline'] = '1'
    if manifest in DRM_TEMPLATES and mode != 'odvod' and rng.random() < 0.5:
        params['drm'] = rng.choice(['all', 'playready', 'clearkey', 'marlin', 'playready-pro', 'clearkey-moov,playready-cenc'])
    if rng.random() < 0.6:
        params['abr'] = '0'
    if rng.random() < 0.3:
        params['acodec'] = rng.choice(['mp4a', 'ec-3'])
    if rng.random() < 0.2:
        params['base'] = rng.choice(['0', '1'])
    if manifest in ('hand_made.mpd', 'manifest_n.mpd') and rng.random() < 0.25:
        ev = params['events'] = rng.choice(['ping', 'scte35'])
        if rng.random() < 0.5:
            # events listed in the manifest (EventStream/Event elements) instead of carried in the media
            params[f'{ev}__inband'] = '0'
            params[f'{ev}__count'] = str(rng.choice([1, 3, 5]))
    if manifest == 'hand_made.mpd' and mode == 'live' and params.get('timeline') == '1' and rng.random() < 0.3:
        params['patch'] = '1'
    return {'stream': 'bbb', 'manifest': manifest, 'mode': mode, 'params': params, 'now': now.isoformat(), 'duration': 8,
            'pretty': rng.random() < 0.4}


def run_shard(ctx: ShardCtx) -> ShardResult:
    from dlv.appenv import AppEnv
    from dlv.workload import isoz as W_isoz
    from dlv.reach import Reach
    res = ShardResult()
    env = AppEnv()
    try:
        env.add_fixture_stream('bbb')
        # a second stream whose encrypted tracks do not share one IV size: video 8 byte IVs (as stored), audio
        # re-packaged with 16 byte IVs (per-track IV size must come from each track's own tenc)
        from dlv import synth
        from dlv.appenv import FIXTURES
        fx = FIXTURES / 'bbb'
        env.add_stream('miv', title='Synthetic: mixed IV sizes', files={
            'miv_v7': (fx / 'bbb_v7.mp4').read_bytes(), 'miv_v7_enc': (fx / 'bbb_v7_enc.mp4').read_bytes(),
            'miv_a1': (fx / 'bbb_a1.mp4').read_bytes(), 'miv_a1_enc': synth.widen_ivs((fx / 'bbb_a1_enc.mp4').read_bytes())})
        res.count('synthetic.streams')
        env.clock.install(validator=True)
        # bind asyncio.sleep of the validator to the virtual clock
        import dashlive.mpeg.dash.validator.validator as vmod

        class _Aio:
            def __getattr__(self, name):
                return getattr(asyncio, name)

            async def sleep(self, seconds, *a):
                env.clock.advance(float(seconds))
        vmod.asyncio = _Aio()
        reach = Reach([
            ('dashlive.mpeg.dash.validator.validator', 'DashValidator.validate'),
            ('dashlive.mpeg.dash.validator.validator', 'DashValidator.refresh'),
            ('dashlive.mpeg.dash.validator.validator', 'DashValidator.patch_manifest'),
            ('dashlive.mpeg.dash.validator.media_segment', 'MediaSegment.validate_segment'),
            ('dashlive.mpeg.dash.validator.media_segment', 'MediaSegment.check_saio_offset'),
            ('dashlive.mpeg.dash.validator.init_segment', 'InitSegment.validate'),
        ])
        sess = Session(env, res)
        rng = ctx.rng
        n = ctx.scale(10**6, 10**7)
        replayed = ctx.replay.get('replay') if ctx.replay else None
        if replayed:
            n = 1
        for i in range(n):
            case = gen_case(ctx)
            corrupted = i % 2 == 1
            fault = None
            if 'drm' in case['params'] and case['params'].get('acodec', 'mp4a') == 'mp4a' and rng.random() < 0.4:
                case['stream'] = 'miv'
            if replayed:
                case, fault = replayed['case'], replayed.get('fault')
                corrupted = fault is not None
            elif corrupted:
                pool = list(SEGMENT_FAULTS) + list(INIT_FAULTS)
                if case['mode'] == 'live':
                    pool += MANIFEST_FAULTS
                else:
                    pool += ['no-minBufferTime', 'no-profiles', 'no-bandwidth'] + (
                        ['timeline-remove-s', 'timeline-shift-t'] if case['params'].get('timeline') == '1' else [])
                if 'drm' not in case['params']:
                    pool = [f for f in pool if f not in ('saio-offset', 'init-no-tenc')]
                if case['params'].get('timeline') != '1' or case['mode'] == 'odvod':
                    pool = [f for f in pool if not f.startswith('timeline-')]
                fault = rng.choice(pool)
            if not replayed and fault == 'ast-changes-on-refresh':
                # several refreshes after the corrupted one: the error must survive to the end of the session
                case['params']['depth'] = '20'
                case['params'].setdefault('mup', '4')
                case['duration'] = rng.choice([24, 40])
            if not replayed and not corrupted and case['mode'] == 'live' and rng.random() < 0.15:
                # a pristine session that needs more than the window holds at one time
                case['params']['depth'] = '20'
                case['duration'] = rng.choice([32, 45])
            if not replayed and corrupted and rng.random() < 0.12:
                # a patch=1 session that is long enough to refresh through the patch endpoint
                case = {'stream': 'bbb', 'manifest': 'hand_made.mpd', 'mode': 'live',
                        'params': {'start': W_isoz(datetime.datetime.fromisoformat(case['now']).replace(microsecond=0) -
                                                    datetime.timedelta(seconds=rng.choice([200, 1000, 86400 * 3 + 17]))),
                                   'depth': '16', 'mup': '4', 'timeline': '1', 'patch': '1'},
                        'now': case['now'], 'duration': rng.choice([16, 24])}
                fault = rng.choice(PATCH_FAULTS)
            after_refresh = False
            pick = rng.randrange(0, 4)
            if replayed:
                after_refresh, pick = bool(replayed.get('after_refresh')), int(replayed.get('pick', 0))
            elif fault in ('tfdt-plus', 'tfdt-minus', 'mfhd-plus') and case['mode'] == 'live' and rng.random() < 0.5:
                # a longer session with a short window: the fault goes into the first new segment of a
                # representation after a manifest refresh (continuity across refreshes)
                after_refresh = True
                case['params']['depth'] = '20'
                case['params'].setdefault('mup', '4')
                case['duration'] = rng.choice([24, 40])
            if after_refresh or fault not in SEGMENT_FAULTS:
                pick = 0
            out, dv = sess.run(case, fault, pick=pick, after_refresh=after_refresh)
            if after_refresh:
                res.count('faults.after_refresh_sessions')
                if out.get('applied'):
                    res.count('faults.after_refresh_applied')
            res.evaluations += 1
            if case['stream'] == 'miv':
                res.count('sessions.mixed_iv_sizes')
            rp = {'case': case, 'fault': fault, 'after_refresh': after_refresh, 'pick': pick}
            sig = (f'{case["manifest"]}|{case["mode"]}|{"tl" if case["params"].get("timeline") == "1" else "num"}|'
                   f'{"drm" if "drm" in case["params"] else "clear"}|{"patch" if "patch" in case["params"] else ""}')
            if out['outcome'] == 'watchdog':
                res.inconclusive.append(f'validator session hit the wall watchdog: {case}')
                continue
            if out['outcome'] == 'exception':
                where = 'unknown'
                for line in (out.get('traceback') or '').splitlines():
                    if '/validator/' in line and ', in ' in line:
                        where = line.rsplit(', in ', 1)[1].strip()
                res.violation(f'validator-raises-{out["exception"].split(":")[0]}-in-{where}-'
                              f'{"clean-session" if not corrupted else fault}',
                              f'{case["manifest"]} {case["mode"]} {case["params"]} fault={fault}: {out["exception"]}', rp,
                              traceback=out.get('traceback'))
                continue
            errors = out['errors']
            if not corrupted and not errors and out.get('finished') is False:
                # "the validator terminates": upstream's driver loops until finished(); a pristine stream
                # on which that never becomes true keeps it going until its loop budget is used up
                res.violation('validator-does-not-finish-on-pristine-stream',
                              f'{case["manifest"]} {case["mode"]} {case["params"]} duration={case.get("duration", 8)}: '
                              f'not finished after {out["iterations"]} validate/refresh rounds, no error reported', rp)
            if not corrupted:
                res.count('sessions.clean')
                res.keys.add(f'clean|{sig}')
                seen_mech = set()
                for e0 in errors:
                    mech = 'validator-rejects-pristine-stream: ' + normalise(e0.msg)
                    if mech in seen_mech:
                        continue
                    seen_mech.add(mech)
                    res.violation(mech,
                                  f'{case["manifest"]} {case["mode"]} {case["params"]} at {case["now"]}: '
                                  f'{len(errors)} error(s): {str(e0)[:300]}', rp)
                if len(res.samples) < 3:
                    res.samples.append({'session': 'clean', 'case': case, 'requests': out.get('requests'),
                                        'iterations': out['iterations'], 'errors': len(errors)})
                continue
            res.count('sessions.corrupted')
            applied = out['applied']
            if applied is None:
                res.count('faults.not_applicable')
                continue
            res.count('faults.applied')
            res.bucket('fault', fault)
            res.keys.add(f'corrupt|{sig}|{fault}')
            if not errors:
                first = first_suffix(applied, fault)
                res.violation(f'corruption-not-flagged-{fault}{first}',
                              f'{case["manifest"]} {case["mode"]} {case["params"]}: {applied["what"]} in {applied["url"]} '
                              f'but the validator reported no error', rp)
                continue
            res.count('faults.detected')
            # located at the corrupted element?
            located = False
            if fault == 'no-bandwidth':
                # the error is reported on the lines of a Representation element of the text the validator shows
                # (which is the pretty-printed text when that option is on)
                for e in errors:
                    if 'andwidth' not in str(e):
                        continue
                    for lines in (out.get('lines_history') or [out['lines']]):
                        if e.location and e.location.start is not None:
                            # the element whose start tag contains (or is the last one opened before) that line
                            import re as _re
                            idx = min(len(lines), e.location.start) - 1
                            while idx >= 0 and not _re.search(r'<[A-Za-z]', lines[idx]):
                                idx -= 1
                            if idx >= 0 and _re.findall(r'<([A-Za-z:]+)', lines[idx])[-1].endswith('Representation'):
                                located = True
                res.count('faults.location_judged_in_manifest')
            elif fault in MANIFEST_FAULTS or fault in PATCH_FAULTS:
                located = True       # any error of the manifest document counts for MPD-level faults
            else:
                # error locations are line numbers of the manifest version that was current when the error
                # was raised: compare with the owner's line range in every version the session has seen
                ranges = [owner_lines(lines, applied['url']) for lines in (out.get('lines_history') or [out['lines']])]
                rng_lines = next((x for x in ranges if x), None)
                for e in errors:
                    if applied['url'] in e.msg or applied['url'].split('?')[0] in e.msg:
                        located = True
                    for rl in ranges:
                        if rl and e.location and e.location.start is not None:
                            if not (e.location.end < rl[0] or e.location.start > rl[1]):
                                located = True
                if rng_lines is None:
                    located = True      # owner cannot be determined from the URL: do not judge the location
            if not located:
                first = first_suffix(applied, fault)
                res.violation(f'corruption-flagged-at-wrong-element-{fault}{first}',
                              f'{case["manifest"]} {case["mode"]}: {applied["what"]} in {applied["url"]}; errors: '
                              f'{[str(e)[:120] for e in errors[:3]]}', rp)
            if len(res.samples) < 6:
                res.samples.append({'session': 'corrupted', 'fault': fault, 'applied': applied,
                                    'first_error': str(errors[0])[:200]})
            if ctx.out_of_time():
                break
        reach.report(res)
    finally:
        env.close()
    return res
