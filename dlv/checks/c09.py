"""C09 -- successive manifests and MPD patches evolve consistently.

Offline pairwise checker over recorded manifest histories (chains of 2..8 increasing virtual
instants with identical options): shared segments agree, the window and publishTime /
availabilityStartTime only move forward; with patches enabled the PatchLocation of the
manifest at T1 is fetched at T2, applied to the T1 document with an independent RFC 5261
subset and compared with the full manifest served at T2.
"""
from __future__ import annotations

import datetime
from fractions import Fraction

from dlv.core import ShardCtx, ShardResult
from dlv.oracles import mpd as M
from dlv.oracles import mpdrules as R
from dlv.oracles import xmlpatch

PROPERTY = 'C09'
LEVEL = 'exploration'
RULE = ('chains of 2..8 instants T1<T2<.. per (stream, timeline-capable template, option vector with/without patch=1); '
        'deltas from 1 ms to 10 update periods incl. forced crossings of a segment boundary, a source loop, a UTC day and the '
        'patch ttl. Non-trivial pair = both manifests list a timeline; distinct = (template, patch on/off, start kind, '
        'delta class, crossing class).')
ASSUMPTIONS = [
    'pairs across which the resolved availabilityStartTime changed (start=now every second; today/month/year at their roll-over) are classified apart (-ast-changed) from pairs with a fixed availabilityStartTime (-same-ast)',
    'segments are compared in absolute time (availabilityStartTime + t/timescale) so that a forward move of a symbolic start is handled',
    'patch application: own RFC 5261 subset (replace on attribute / element, steps name[n] and name[@id=..]), names matched by local name',
    'timelines are compared after expansion of S@r; PatchLocation is compared by text and ttl',
    'shims + werkzeug test client as HTTP boundary',
]
REQUIRED_COUNTERS = ['pairs.compared', 'pairs.shared_segments', 'patch.applied', 'patch.timelines_compared',
                     'reach.generateSegmentTimeline', 'reach.get']

UTC = datetime.timezone.utc
TL_TEMPLATES = ['hand_made.mpd', 'manifest_a.mpd', 'manifest_n.mpd']


def shards(tier: str) -> int:
    return 16


def timelines(doc: M.MpdView) -> dict:
    """(period id, adaptation key) -> (timescale, pto, [(t,d)..]) of the first representation"""
    out = {}
    for period, rep in doc.all_reps():
        if rep.timeline is None:
            continue
        key = (period.id, rep.adaptation_set_id or rep.content_type + rep.mime_type)
        if key in out:
            continue
        out[key] = (rep.timescale, rep.pto, [(e.t, e.d) for e in rep.timeline])
    return out


def gen_chain(ctx: ShardCtx) -> dict:
    from dlv import workload as W
    rng = ctx.rng
    manifest = rng.choice(TL_TEMPLATES)
    params, now = W.live_params(rng, manifest, True, manifest != 'manifest_a.mpd', allow_events=False,
                                plus_offsets=True)
    params['timeline'] = '1'
    params.pop('patch', None)
    if manifest == 'hand_made.mpd' and rng.random() < 0.6:
        params['patch'] = '1'
    if 'depth' in params and int(params['depth']) > 300:
        params['depth'] = '120'
    mup = int(params.get('mup', 8)) if params.get('mup', '8').lstrip('-').isdigit() else 8
    mup = mup if mup > 0 else 8
    depth = int(params.get('depth', 60)) or 60
    steps = rng.randrange(2, 9)
    deltas = []
    for _ in range(steps - 1):
        deltas.append(rng.choice([0.001, 0.5, 1, 2, 3.999, 4, 4.001, 8, mup, mup + 0.5, 10 * mup, 39.9, 40, 40.1,
                                  depth, depth + 1, 64, 3600, rng.random() * 20]))
    if rng.random() < 0.2:
        # aim at a UTC-day crossing
        now = now.replace(hour=23, minute=59, second=rng.randrange(40, 60))
        if isinstance(params.get('start'), str) and params['start'][0].isdigit():
            params.pop('start')
    return {'stream': rng.choice(['bbb', 'bbb', 'tears', 'dflt', 'vt5', 'syn']), 'manifest': manifest, 'params': params,
            'now': now.isoformat(), 'deltas': deltas}


def run_chain(env, client, res: ShardResult, chain: dict) -> None:
    from dlv.livewalk import qs, LiveWalk
    url = f"/dash/live/{chain['stream']}/{chain['manifest']}" + qs(chain['params'])
    now = datetime.datetime.fromisoformat(chain['now'])
    docs = []
    t = now
    rp = {'chain': chain}
    for i in range(len(chain['deltas']) + 1):
        if i:
            t = t + datetime.timedelta(seconds=chain['deltas'][i - 1])
        env.clock.set(t)
        r = env.get(url, client=client)
        if r.status_code != 200:
            res.count(f'manifest.status.{r.status_code}')
            return
        try:
            doc = M.parse_mpd(r.data, 'http://localhost' + url)
        except Exception:
            res.count('manifest.unparseable')
            return
        docs.append((t, doc, r.data))
    res.evaluations += 1
    start_kind = chain['params'].get('start', 'dflt')
    start_kind = start_kind if start_kind[0].isalpha() else 'iso'
    for (t1, d1, raw1), (t2, d2, raw2) in zip(docs, docs[1:]):
        res.count('pairs.compared')
        delta = (t2 - t1).total_seconds()
        dcls = '<1s' if delta < 1 else '<seg' if delta < 4 else '<loop' if delta < 40 else '>=loop'
        label = f'{url} at {t1.isoformat()} then +{delta}s'
        a1, a2 = d1.dt('availabilityStartTime'), d2.dt('availabilityStartTime')
        p1, p2 = d1.dt('publishTime'), d2.dt('publishTime')
        crossing = 'same-ast' if a1 == a2 else 'ast-changed'
        if a1 is not None and a2 is not None and a2 < a1:
            res.violation('availability-start-moves-backward', f'{label}: {a1} -> {a2}', rp)
        if p1 is not None and p2 is not None and p2 < p1:
            res.violation(f'publish-time-decreases-{crossing}', f'{label}: publishTime {p1} -> {p2} (AST {a1} -> {a2})', rp)
        tl1, tl2 = timelines(d1), timelines(d2)
        for key in tl1:
            if key not in tl2:
                res.violation('adaptation-set-disappears-between-manifests', f'{label}: {key}', rp)
                continue
            ts, pto, e1 = tl1[key]
            ts2, pto2, e2 = tl2[key]
            if ts != ts2 or not e1 or not e2 or a1 is None or a2 is None:
                continue
            off = M.seconds_between(a1, a2) * ts          # ticks by which AST moved forward
            abs2 = {Fraction(t) + off: d for t, d in e2}
            shared = 0
            for t_, d_ in e1:
                if Fraction(t_) in abs2:
                    shared += 1
                    if abs2[Fraction(t_)] != d_:
                        res.violation(f'shared-segment-duration-differs-{crossing}',
                                      f'{label}: {key}: segment at t={t_} has d={d_} then d={abs2[Fraction(t_)]}', rp)
            res.count('pairs.shared_segments', shared)
            first1, first2 = Fraction(e1[0][0]), Fraction(e2[0][0]) + off
            end1, end2 = Fraction(e1[-1][0] + e1[-1][1]), Fraction(e2[-1][0] + e2[-1][1]) + off
            if first2 < first1:
                res.violation(f'window-start-moves-backward-{crossing}', f'{label}: {key}: first t {first1} -> {first2}', rp)
            if end2 < end1:
                res.violation(f'window-end-moves-backward-{crossing}', f'{label}: {key}: end {end1} -> {end2}', rp)
            # a segment present in the overlap of both windows must be listed by both
            lo, hi = max(first1, first2), min(end1, end2)
            s1 = {Fraction(t_) for t_, d_ in e1 if lo <= t_ and t_ + d_ <= hi}
            s2 = {t_ for t_, d_ in abs2.items() if lo <= t_ and t_ + d_ <= hi}
            if s1 != s2 and lo < hi:
                res.violation(f'segment-grid-differs-between-manifests-{crossing}',
                              f'{label}: {key}: inside the common window the first lists starts {sorted(s1)[:4]}.. '
                              f'and the second {sorted(s2)[:4]}..', rp)
        res.keys.add(f'{chain["manifest"]}|patch{chain["params"].get("patch", "0")}|{start_kind}|{dcls}|{crossing}')
        # ---------------- patch
        if chain['params'].get('patch') == '1':
            root1 = R.parse(raw1)
            pl = root1.find(R.Q + 'PatchLocation')
            if pl is None or not (pl.text or '').strip():
                res.violation('patch-location-missing', f'{label}: manifest with patch=1 has no PatchLocation', rp)
                continue
            env.clock.set(t2)
            pr = env.get(LiveWalk._path(pl.text.strip()), client=client)
            if pr.status_code != 200:
                res.violation('patch-not-retrievable' if pr.status_code < 500 else 'patch-5xx',
                              f'{label}: {pl.text.strip()} -> {pr.status_code}', rp, exception=env.rec.last_exception)
                continue
            try:
                proot = R.parse(pr.data)
                patched = xmlpatch.apply(root1, proot)
            except xmlpatch.PatchError as err:
                res.violation('patch-not-applicable', f'{label}: {err}', rp)
                continue
            except Exception as err:
                res.violation('patch-not-well-formed', f'{label}: {type(err).__name__}: {err}', rp)
                continue
            res.count('patch.applied')
            root2 = R.parse(raw2)
            if proot.get('originalPublishTime') is None or \
                    M.parse_datetime(proot.get('originalPublishTime')) != p1:
                res.violation('patch-original-publish-time-differs',
                              f'{label}: originalPublishTime {proot.get("originalPublishTime")} vs manifest {p1}', rp)
            if proot.get('mpdId') != root1.get('id'):
                res.violation('patch-mpd-id-differs', f'{label}: mpdId {proot.get("mpdId")} vs MPD@id {root1.get("id")}', rp)
            if patched.get('publishTime') != root2.get('publishTime'):
                res.violation(f'patched-publish-time-differs-from-full-manifest-{crossing}',
                              f'{label}: patched {patched.get("publishTime")} full {root2.get("publishTime")}', rp)
            pl_a, pl_b = patched.find(R.Q + 'PatchLocation'), root2.find(R.Q + 'PatchLocation')
            ta = ((pl_a.text or '').strip(), pl_a.get('ttl')) if pl_a is not None else None
            tb = ((pl_b.text or '').strip(), pl_b.get('ttl')) if pl_b is not None else None
            if ta != tb:
                res.violation(f'patched-patch-location-differs-from-full-manifest-{crossing}', f'{label}: {ta} vs {tb}', rp)
            try:
                vp = M.parse_mpd(__import__('lxml.etree', fromlist=['tostring']).tostring(patched), 'http://localhost' + url)
            except Exception as err:
                res.violation('patched-document-not-a-manifest', f'{label}: {err}', rp)
                continue
            tlp = timelines(vp)
            for key, val in tl2.items():
                res.count('patch.timelines_compared')
                if tlp.get(key) != val:
                    got = tlp.get(key)
                    res.violation(f'patched-timeline-differs-from-full-manifest-{crossing}',
                                  f'{label}: {key}: patched {got[2][:3] if got else None}.. ({len(got[2]) if got else 0}) '
                                  f'full {val[2][:3]}.. ({len(val[2])})', rp)
    if len(res.samples) < 4:
        res.samples.append({'url': url, 'instants': [d[0].isoformat() for d in docs]})


def run_shard(ctx: ShardCtx) -> ShardResult:
    from dlv.appenv import AppEnv
    from dlv.reach import Reach
    res = ShardResult()
    env = AppEnv()
    try:
        env.add_fixture_stream('bbb')
        env.add_fixture_stream('tears')
        from dlv import synth
        synth.add_retracked_video_stream(env, res)     # video track id differs from the AdaptationSet id
        synth.add_synthetic_streams(env, ctx, res)      # reference duration that is not a whole number of microseconds
        env.add_defaults_stream()      # saved per-stream defaults: manifest and patch endpoint must resolve the same options
        reach = Reach([('dashlive.server.requesthandler.manifest_requests', 'ServePatch.get'),
                       ('dashlive.mpeg.dash.representation', 'Representation.generateSegmentTimeline'),
                       ('dashlive.mpeg.dash.representation', 'Representation.get_segment_index')])
        client = env.client()
        if ctx.replay:
            run_chain(env, client, res, ctx.replay['replay']['chain'])
        else:
            for i in range(ctx.scale(10**6, 10**7)):
                run_chain(env, client, res, gen_chain(ctx))
                if ctx.out_of_time():
                    break
        reach.report(res)
    finally:
        env.close()
    return res
