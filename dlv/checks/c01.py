"""C01 -- every segment a live manifest advertises is retrievable.

HTTP-boundary monitor: manifest fetched at a frozen virtual instant T through the real
WSGI app; the set of addressable segments is decided from the document alone by an
independent rational-arithmetic model of ISO/IEC 23009-1 5.3.9.5.3; each one (and every
init segment) is then requested at the same T and must answer 200.
"""
from __future__ import annotations

from fractions import Fraction

from dlv.core import ShardCtx, ShardResult

PROPERTY = 'C01'
LEVEL = 'exploration'
ORACLES = {'c01'}
RULE = ('case = (stream in {bbb incl. 10 s text track, tears, synthetic irregular}, live-capable template (7), '
        'option vector over depth/start/leeway/mup/timeline/drm/abr/acodec/base/events/patch/time/vcorrupt, clock T on '
        'sub-segment / loop-boundary / calendar / young-stream phase grids from seconds to 54 years after '
        'availabilityStartTime). For every Representation every advertised segment (all when <= 14, else first 4, '
        'last 4 and random inner ones) and the init segment are fetched at T. Non-trivial = the manifest was '
        'accepted and advertised at least one segment; distinct = distinct (stream, template, addressing, leeway, '
        'depth, drm-system, quarter-second clock phase, loop-count bucket, start kind) signatures.')
ASSUMPTIONS = [
    'shims for flask_login/sqlalchemy_jsonfield/dotenv/netifaces (absent from /venv), werkzeug test client as HTTP boundary',
    'virtual clock replaces datetime.now in manifest_context, media_requests, utctime, multi_period_streams only',
    'availability model: window of number n = [AST+PS+(n-sN+1)d, AST+PS+(n-sN+2)d+TSBD]; timeline entry addressable when its end <= T',
    'oracle reads only the manifest document (lxml) and HTTP status codes',
]
REQUIRED_COUNTERS = ['manifest.ok', 'segment.requests', 'segment.kind.time', 'segment.kind.number',
                     'init.requests', 'reach.generateSegmentTimeline',
                     'reach.calculate_segment_number_and_time', 'reach.calculate_first_and_last_segment_number']


def shards(tier: str) -> int:
    return 16


def build_env(ctx: ShardCtx, res: ShardResult):
    from dlv.appenv import AppEnv
    from dlv.livewalk import StoredIndex
    env = AppEnv()
    env.add_fixture_stream('bbb')
    env.add_fixture_stream('tears')
    # a stream whose saved per-stream defaults differ from the global ones: manifest and media
    # handlers must resolve the same option values from (stream defaults + URL)
    env.add_defaults_stream()
    # a stream as older databases hold it: the names of its media files carry the ".mp4" suffix
    env.add_legacy_names_stream()
    env.add_dotted_names_stream()
    try:
        from dlv import synth
        synth.add_synthetic_streams(env, ctx, res)
        synth.add_structural_streams(env, ctx, res)
        synth.add_offset_start_stream(env, res)      # decode times that start at 100 s
        synth.add_layout_variants_stream(env, res)   # explicit base (encrypted), free box before mdat
        synth.add_long_first_fragment_stream(env, res)   # segments that start late against the nominal grid
    except ImportError:
        pass
    index = StoredIndex(env)
    refs = {}
    with env.app.app_context():
        for s in env.models.Stream.all():
            tr = s.timing_reference
            if tr is None:
                continue
            sf = index.files.get((s.directory, tr.media_name.removesuffix('.mp4')))
            if sf is not None:
                refs[s.directory] = Fraction(sf.duration, sf.timescale)
    return env, index, refs


def gen_case(ctx: ShardCtx, streams: dict, corrupt: bool = False) -> dict:
    from dlv import workload as W
    from dlv.livewalk import LIVE_TEMPLATES, TIMELINE_TEMPLATES, DRM_TEMPLATES
    rng = ctx.rng
    stream = rng.choice(list(streams))
    info = streams[stream]
    manifest = rng.choice(LIVE_TEMPLATES)
    if stream == 'sy9':
        manifest = 'manifest_ef.mpd'        # the only template with a SegmentTemplate per Representation
    params, now = W.live_params(
        rng, manifest, manifest in TIMELINE_TEMPLATES,
        manifest in DRM_TEMPLATES and info.get('encrypted', False),
        seg_s=info.get('seg_s', 4.0), ref_s=info.get('ref_s', 40.0))
    if corrupt and rng.random() < 0.2:
        # corrupted video is still retrievable video. A time of day names the fragment that is live at that
        # time on the day of availabilityStartTime (the manifest translates it to a segment number); plain
        # numbers are taken as they are
        import datetime as _dt
        depth = int(params.get('depth', '60') or 60)
        marks = []
        for _ in range(rng.choice([1, 1, 2, 3])):
            if rng.random() < 0.7:
                back = rng.uniform(0, max(depth, 8) + 8)
                marks.append((now - _dt.timedelta(seconds=back)).strftime('%H:%M:%SZ'))
            else:
                marks.append(str(rng.choice([1, 2, 3, 5, 10, 11, 100])))
        params['vcorrupt'] = ','.join(marks)
        if rng.random() < 0.4:
            params['frames'] = str(rng.choice([1, 2, 5]))
    return {'stream': stream, 'manifest': manifest, 'mode': 'live', 'params': params, 'now': now.isoformat()}


def stream_info(env, index, refs) -> dict:
    out = {}
    for (directory, name), sf in index.files.items():
        d = out.setdefault(directory, {'encrypted': False})
        if sf.tenc is not None:
            d['encrypted'] = True
        if directory in refs:
            d['ref_s'] = float(refs[directory])
        if sf.handler == b'vide':
            d['seg_s'] = float(Fraction(sf.segments[0].duration, sf.timescale))
    return {k: v for k, v in out.items() if k in refs}


def run_shard(ctx: ShardCtx, oracles=None, required_reach=True) -> ShardResult:
    from dlv.livewalk import LiveWalk
    from dlv.reach import Reach
    res = ShardResult()
    env, index, refs = build_env(ctx, res)
    try:
        reach = Reach([
            ('dashlive.mpeg.dash.representation', 'Representation.generateSegmentTimeline'),
            ('dashlive.mpeg.dash.representation', 'Representation.calculate_first_and_last_segment_number'),
            ('dashlive.mpeg.dash.representation', 'Representation.calculate_segment_number_and_time'),
            ('dashlive.mpeg.dash.representation', 'Representation.get_segment_index'),
            ('dashlive.server.requesthandler.media_requests', 'LiveMedia.calculate_media_segment_index'),
            ('dashlive.server.requesthandler.media_requests', 'MediaRequestBase.generate_media_segment'),
            ('dashlive.mpeg.dash.timing', 'DashTiming.calculate_live_params'),
            ('dashlive.server.requesthandler.manifest_context', 'ManifestContext.calculate_cgi_parameters'),
        ])
        walk = LiveWalk(env, res, index, oracles or ORACLES)
        walk.refs = refs
        streams = stream_info(env, index, refs)
        if ctx.replay:
            walk.run_case(ctx.replay['replay']['case'], ctx.rng)
        else:
            n = ctx.scale(10**6, 10**7)
            for i in range(n):
                case = gen_case(ctx, streams, corrupt=(oracles or ORACLES) == {'c01'})
                walk.run_case(case, ctx.rng)
                if ctx.out_of_time():
                    break
        reach.report(res)
        res.count('clock.reads', env.clock.reads)
        for code, cnt in env.rec.status_hist.items():
            res.bucket('http_status', code, cnt)
    finally:
        env.close()
    return res
