"""C03 -- rewritten media segments keep their payload and point at it correctly.

Same fetch workload as C01 (biased to encrypted / event / PIFF options); the oracle is
the independent walker: exact box nesting, mdat payload byte-identical to a stored
segment's payload, trun.data_offset(+base) == first payload byte, sample sizes sum to the
payload, saio -> first senc entry, senc/trun/saiz sample counts agree (saio waived only
under bugs=saio).
"""
from __future__ import annotations

from dlv.checks import c01
from dlv.core import ShardCtx, ShardResult

PROPERTY = 'C03'
LEVEL = 'exploration'
ORACLES = {'c03'}
RULE = c01.RULE + (' C03: every fetched 200 segment is walked; non-trivial additionally requires that the segment '
                   'was rewritten (time/number rewrite always happens; encrypted, PIFF, emsg and >32-bit tfdt '
                   'variants are counted separately in monitor_counters).')
ASSUMPTIONS = c01.ASSUMPTIONS + [
    'oracle: own ISO-BMFF walker; payload identity by SHA-1 against the walker\'s own index of the stored file',
    'base for trun/saio offsets: explicit tfhd.base_data_offset, else start of the enclosing moof',
]
REQUIRED_COUNTERS = ['c03.segments', 'c03.encrypted_segments', 'c03.saio_checked', 'c03.piff_boxes',
                     'reach.generate_media_segment']


def shards(tier: str) -> int:
    return 16


def run_shard(ctx: ShardCtx) -> ShardResult:
    return c01.run_shard(ctx, oracles=ORACLES)
