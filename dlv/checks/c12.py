"""C12 -- multi-period presentations tile the timeline and play the right media.

HTTP-boundary monitor: multi-period definitions are created through the real management API
(PUT /api/multi-period-streams/.add as a media user); the manifests are read with the
independent MPD reader (period arithmetic in exact Fractions) and every segment number a
Period admits is fetched and identified through its payload hash and walked for decode times.
"""
from __future__ import annotations

import datetime
import hashlib
from fractions import Fraction

from dlv.core import ShardCtx, ShardResult
from dlv.oracles import isobmff as ib
from dlv.oracles import mpd as M

PROPERTY = 'C12'
LEVEL = 'exploration'
RULE = ('definitions of 1..4 periods over the stored streams (start and duration on and off segment boundaries, any '
        'track subset, inside the source) created through the real API x {vod, live} x option vectors x clocks x every '
        'period x every Representation x every admitted number and the next one. Non-trivial = a manifest with >= 1 '
        'period was accepted and its segments walked; distinct = (mode, period count, boundary class, track set, loop bucket).')
ASSUMPTIONS = [
    'numbers a Period admits = ceil(Period duration / (SegmentTemplate@duration / timescale)) per Representation (for an open last live period: up to now)',
    'the source offset of a Period is the start the service reports back for it (the API snaps the requested start to a segment of the timing reference)',
    'definitions keep start + duration inside the source media; requests past the source end are checked separately for 404',
    'shims + werkzeug test client as HTTP boundary',
]
REQUIRED_COUNTERS = ['direct_time.requested', 'direct_time.past_end', 'mps.created', 'manifest.vod', 'manifest.live', 'segments.identified', 'past_end.checked',
                     'ownership.checked', 'reach.create_all_vod_periods', 'reach.create_all_live_periods',
                     'reach.calculate_media_segment_index', 'reach.process_period']

UTC = datetime.timezone.utc
TRACKS = {'bbb': [('video', 1), ('audio', 2), ('audio', 3), ('text', 4)],
          'tears': [('video', 1), ('audio', 2)],
          'dots': [('video', 1), ('audio', 2)],       # media file names with dots in them
          'sy2': [('video', 1), ('audio', 2)],        # fragments numbered from 5, no tfdt, irregular durations
          'cut': [('video', 1), ('audio', 2)]}        # 32 s of video (timing reference), 40 s of audio
SRC_DUR = {'bbb': 40, 'tears': 64, 'dots': 40, 'sy2': 39, 'cut': 32}


def shards(tier: str) -> int:
    return 16


def iso_dur(seconds: float) -> str:
    return f'PT{seconds:g}S'


def gen_definition(rng, idx: int, spk: dict) -> dict:
    n = rng.choice([1, 2, 2, 3, 4])
    periods = []
    for i in range(n):
        stream = rng.choice(['bbb', 'bbb', 'tears', 'tears', 'dots', 'sy2', 'cut'])
        total = SRC_DUR[stream]
        start = rng.choice([0, 4, 8, 12, 2, 5.5, 7.9, rng.randrange(0, total - 12)])
        # the API snaps the start to the nearest segment of the timing reference (up to +2 s)
        remaining = total - start - (0 if start % 4 == 0 else 2)
        duration = rng.choice([8, 12, 16, 20, 9.5, 13, 16.2, 14.2, 10.7, remaining, min(remaining, rng.randrange(8, 33))])
        duration = min(duration, remaining)
        if duration < 8:
            start, duration = 0, 16
        tracks = [('video', 1)]
        for t in TRACKS[stream][1:]:
            if rng.random() < 0.7:
                tracks.append(t)
        periods.append({'pid': f'p{i + 1}', 'stream': stream, 'start': start, 'duration': duration, 'tracks': tracks})
    return {'name': f'mps{idx}', 'title': f'Multi period {idx}', 'periods': periods}


def create_via_api(env, session, spk: dict, definition: dict) -> tuple[int, dict | None]:
    toks = session.stream_tokens(spk['bbb'])
    body = {'name': definition['name'], 'title': definition['title'], 'pk': None, 'options': None,
            'csrf_token': toks.get('streams'), 'periods': []}
    for i, p in enumerate(definition['periods'], start=1):
        body['periods'].append({
            'pk': None, 'pid': p['pid'], 'ordering': i, 'stream': spk[p['stream']], 'parent': None,
            'start': iso_dur(p['start']), 'duration': iso_dur(p['duration']),
            'tracks': [{'track_id': tid, 'role': 'main' if k == 0 else 'alternate', 'lang': None, 'encrypted': False}
                       for k, (ct, tid) in enumerate(p['tracks'])]})
    r = session.request('PUT', '/api/multi-period-streams/.add', json=body, headers=session.bearer())
    js = r.get_json(silent=True) if hasattr(r, 'get_json') else None
    return r.status_code, js


class MpsWalk:
    def __init__(self, env, res, index) -> None:
        self.env, self.res, self.index = env, res, index
        self.client = env.client()

    def get(self, url):
        from dlv.livewalk import LiveWalk
        return self.env.get(LiveWalk._path(url), client=self.client)

    def run(self, definition: dict, model: dict, mode: str, params: dict, now: datetime.datetime, rng) -> None:
        from dlv.livewalk import qs
        res = self.res
        env = self.env
        env.clock.set(now)
        url = f"/mps/{mode}/{definition['name']}/hand_made.mpd" + qs(params)
        r = env.get(url, client=self.client)
        res.evaluations += 1
        rp = {'definition': definition, 'mode': mode, 'params': params, 'now': now.isoformat()}
        if r.status_code != 200:
            res.count(f'manifest.status.{r.status_code}')
            if r.status_code >= 500:
                res.violation('multi-period-manifest-5xx', f'{url} -> {r.status_code}', rp,
                              exception=env.rec.last_exception)
            else:
                # the definition was accepted by the API and the options are ordinary ones
                res.violation('multi-period-manifest-refused', f'{url} -> {r.status_code} {r.data[:120]!r}', rp)
            return
        try:
            doc = M.parse_mpd(r.data, 'http://localhost' + url)
        except Exception as err:
            res.violation('multi-period-manifest-not-parseable', f'{url}: {err}', rp)
            return
        res.count('manifest.' + mode)
        periods = doc.periods
        if not periods:
            res.violation('multi-period-manifest-without-periods', url, rp)
            return
        # ---- period arithmetic
        ids = [p.id for p in periods]
        if len(set(ids)) != len(ids):
            res.violation('period-ids-not-unique', f'{url}: {ids}', rp)
        for a, b in zip(periods, periods[1:]):
            if a.start is None or b.start is None or a.duration is None:
                res.violation('period-without-start-or-duration', f'{url}: period {a.id}', rp)
                continue
            if a.start + a.duration != b.start:
                res.violation('periods-not-contiguous',
                              f'{url}: period {a.id} start {float(a.start)} + duration {float(a.duration)} != '
                              f'next start {float(b.start)}', rp)
        model_periods = {p['pid']: p for p in model['periods']}
        if mode == 'vod':
            mpd_dur = doc.dur('mediaPresentationDuration')
            total = sum((p.duration or Fraction(0)) for p in periods)
            if mpd_dur is None:
                res.violation('static-mps-without-duration', url, rp)
            elif abs(mpd_dur - total) > Fraction(1, 1000):
                res.violation('period-durations-do-not-sum-to-presentation-duration',
                              f'{url}: periods sum to {float(total)} s, mediaPresentationDuration {float(mpd_dur)} s '
                              f'({len(periods)} periods)', rp)
            if periods[0].start not in (None, Fraction(0)):
                res.violation('first-period-does-not-start-at-zero', f'{url}: {periods[0].start}', rp)
        else:
            ast = doc.dt('availabilityStartTime')
            tsbd = doc.dur('timeShiftBufferDepth') or Fraction(0)
            if ast is not None:
                elapsed = M.seconds_between(ast, now)
                lo = max(Fraction(0), elapsed - tsbd)
                first, last = periods[0], periods[-1]
                if first.start is not None and first.start > lo:
                    res.violation('live-periods-do-not-cover-window-start',
                                  f'{url}: first period starts at {float(first.start)} s, window starts at {float(lo)} s', rp)
                if last.start is not None:
                    end = last.start + last.duration if last.duration is not None else None
                    if end is not None and end < elapsed:
                        res.violation('live-periods-do-not-reach-now',
                                      f'{url}: last period ends at {float(end)} s, now is {float(elapsed)} s', rp)
        # ---- media inside each period
        for pv in periods:
            base_pid = pv.id.split('_')[0] if mode == 'live' else pv.id
            mp = model_periods.get(base_pid)
            if mp is None:
                res.violation('period-id-not-in-definition', f'{url}: {pv.id}', rp)
                continue
            stream_dir = next(p['stream'] for p in definition['periods'] if p['pid'] == base_pid)
            src_start = M.parse_duration(mp['start']) if isinstance(mp['start'], str) else Fraction(mp['start'])
            # every track of the definition is present with at least one Representation
            want_types = {t for t, _ in next(p['tracks'] for p in definition['periods'] if p['pid'] == base_pid)}
            have_types = {rep.content_type for rep in pv.reps}
            res.count('period.tracks_checked')
            if not want_types <= have_types:
                res.violation('period-track-without-representation',
                              f'{url}: period {pv.id} defines tracks {sorted(want_types)}, the manifest has '
                              f'representations for {sorted(have_types)}', rp)
            for rep in pv.reps:
                self.walk_rep(url, doc, pv, rep, stream_dir, src_start, mode, now, rp, rng)
        ncls = len(definition['periods'])
        bcls = 'on-boundary' if all(float(p['start']) % 4 == 0 and float(p['duration']) % 4 == 0
                                    for p in definition['periods']) else 'off-boundary'
        res.keys.add(f'{mode}|n{ncls}|{bcls}|{"tl" if params.get("timeline") == "1" else "num"}|'
                     f'{"+".join(sorted({t for p in definition["periods"] for t, _ in p["tracks"]}))}')
        if len(res.samples) < 4:
            res.samples.append({'url': url, 'periods': [(p.id, float(p.start or 0), float(p.duration or 0)) for p in periods]})

    def reference_seconds(self, stream_dir: str):
        """duration of the (clear) video file of the stream, which the harness makes its timing reference"""
        cache = self.__dict__.setdefault('_ref_s', {})
        if stream_dir not in cache:
            cache[stream_dir] = None
            for (d, name), f in sorted(self.index.files.items()):
                if d == stream_dir and f.handler == b'vide' and f.tenc is None:
                    cache[stream_dir] = Fraction(f.duration, f.timescale)
                    break
        return cache[stream_dir]

    def walk_direct_time(self, label, rep, sf, key, starts, k0, rp, rng, target=None) -> None:
        """$Time$ requests built by hand, independent of what the manifest's SegmentTimeline says:
        time t counts from the Period's first source segment (the handler's own convention), so
        t_j = start of stored segment k0+j minus start of segment k0 delivers stored segment k0+j
        with decode time t_j and sequence number startNumber+j; a time past the source end is 404."""
        res = self.res
        iu = rep.init_url()
        if not iu or '/init.' not in iu:
            return
        n = len(sf.segments)
        # time addressing is bounded by the duration of the stream's timing reference (the loop length); a track
        # with more media than that is only reachable by number beyond it
        ref_s = self.reference_seconds(key[0])
        n_time = n
        if ref_s is not None:
            n_time = max(k0 + 1, sum(1 for k in range(n) if Fraction(starts[k] + sf.segments[k].duration, rep.timescale) <= ref_s))
        picks = sorted({0, 1, (n_time - k0) // 2, n_time - k0 - 1} & set(range(max(0, n_time - k0))))
        for j in picks:
            t = starts[k0 + j] - starts[k0]
            u = iu.replace('/init.', f'/time/{t}.')
            r = self.get(u)
            res.count('direct_time.requested')
            what = f'direct $Time$={t} (segment {j + 1} of the period)'
            if r.status_code != 200:
                res.violation('period-direct-time-request-refused', f'{label}: {what} -> {r.status_code}', rp,
                              exception=self.env.rec.last_exception)
                return
            try:
                frag = ib.read_fragment(r.data)
            except Exception as err:
                res.violation('period-direct-time-segment-not-well-formed', f'{label}: {what}: {err}', rp)
                return
            payload = r.data[frag.mdat.body:frag.mdat.end]
            ks = self.index.payload[key].get(hashlib.sha1(payload).digest(), [])
            # the handler resolves a time to the stored segment whose start is nearest to
            # (source offset + t). With an offset inside a segment and irregular durations that is
            # not always k0+j (offset just short of mid-segment, next segment shorter): accept
            # every segment whose start is within a millisecond of being the nearest
            want = {k0 + j}
            if target is not None:
                dist = [abs(starts[k] - (target + t)) for k in range(n)]
                tol = max(2, rep.timescale // 1000)
                want = {k for k in range(n) if dist[k] <= min(dist) + tol}
                if (k0 + j) not in want:
                    res.count('direct_time.nearest_is_not_k0_plus_j')
            got = [k for k in ks if k in want]
            if not got:
                res.violation('period-direct-time-delivers-wrong-source-segment',
                              f'{label}: {what} delivered stored segment {[k + 1 for k in ks]}, '
                              f'expected {sorted(k + 1 for k in want)}', rp)
                return
            j_seq = got[0] - k0
            tfdt = frag.tfdt[1] if frag.tfdt else None
            if tfdt != t:
                res.violation('period-direct-time-decode-time-differs', f'{label}: {what}: tfdt {tfdt}', rp)
                return
            # (hand-built $Time$ requests are not part of the statement; the live handler renumbers them by
            # position in the source, which equals startNumber + j only for sources numbered from 1)
            if rep.start_number == 1 and frag.sequence_number != rep.start_number + j_seq:
                res.violation('period-direct-time-sequence-number-differs',
                              f'{label}: {what}: mfhd sequence number {frag.sequence_number}, '
                              f'expected startNumber {rep.start_number} + {j_seq}', rp)
                return
            res.count('direct_time.held')
        if n_time != n:
            return
        # one and two segment durations past the end of the source
        last = sf.segments[-1].duration
        for extra in (0, last):
            # counted from the source offset itself when it is known: relative to segment k0 a time
            # just short of the end can still be nearest to the last segment
            off = starts[k0] if target is None else min(starts[k0], int(target))
            t = starts[-1] + last - off + extra
            r = self.get(iu.replace('/init.', f'/time/{t}.'))
            res.count('direct_time.past_end')
            if r.status_code != 404:
                res.violation('period-direct-time-past-source-end-not-404',
                              f'{label}: direct $Time$={t} (source ends {starts[-1] + last - off} after the offset) -> {r.status_code}', rp,
                              exception=self.env.rec.last_exception)
                return

    def walk_rep(self, url, doc, pv, rep, stream_dir, src_start, mode, now, rp, rng) -> None:
        res = self.res
        key = (stream_dir, rep.id)
        sf = self.index.files.get(key)
        if sf is None:
            res.count('rep.unknown_file')
            return
        label = f'{url} period {pv.id} rep {rep.id}'
        iu = rep.init_url()
        if iu:
            r = self.get(iu)
            if r.status_code != 200:
                res.violation('period-init-not-retrievable', f'{label}: {iu} -> {r.status_code}', rp,
                              exception=self.env.rec.last_exception)
        if rep.duration is None and rep.timeline is None:
            return
        ts = rep.timescale
        # stored segment nearest to the period's source offset (in the track's own timeline)
        first_dt = self.index.stored_decode_time(key, 0)
        target = src_start * ts
        starts = [self.index.stored_decode_time(key, k) - first_dt for k in range(len(sf.segments))]
        k0 = min(range(len(starts)), key=lambda k: (abs(starts[k] - target), k))
        pdur = pv.duration
        if pdur is None:
            if doc.type != 'dynamic':
                return
            ast = doc.dt('availabilityStartTime')
            pdur = M.seconds_between(ast, now) - (pv.start or Fraction(0))
            if pdur <= 0:
                return
        if rep.timeline is not None:
            # entries that start inside the Period (a client clips the timeline at the Period end)
            t0 = rep.timeline[0].t if rep.timeline else 0
            n_adm = sum(1 for e in rep.timeline if Fraction(e.t - t0, ts) < pdur)
        else:
            d = Fraction(rep.duration, ts)
            n_adm = -((-(pdur / d).numerator) // (pdur / d).denominator)
            if doc.type == 'dynamic' and pv.duration is None:
                n_adm = int(pdur / d)          # open period: only complete segments are available
        n_adm = min(n_adm, 40)
        expect_tfdt = None
        addr = 'timeline-addressing' if rep.timeline is not None else 'number-addressing'
        for j in range(n_adm):
            if rep.timeline is not None:
                e = rep.timeline[j]
                u = rep.media_url(number=rep.start_number + j, time=e.t)
                what = f'$Time$={e.t}'
            else:
                u = rep.media_url(number=rep.start_number + j)
                what = f'$Number$={rep.start_number + j}'
            r = self.get(u)
            res.count('segments.requested')
            k_want = k0 + j
            if r.status_code != 200:
                # stored segments that start before the period's end (source offset + duration)
                end_tc = (src_start + pdur) * ts
                n_exact = sum(1 for k in range(k0, len(sf.segments)) if starts[k] < end_tc)
                if rep.timeline is None and j == n_exact and n_adm == n_exact + 1:
                    res.violation('period-number-template-enumerates-one-segment-beyond-shorter-track',
                                  f'{label}: {what}: period duration {float(pdur)} s / @duration admits {n_adm} numbers, '
                                  f'{n_exact} stored segments lie inside the period -> {r.status_code}', rp)
                elif k_want >= len(sf.segments):
                    res.violation(f'period-admits-segment-beyond-source-{addr}',
                                  f'{label}: {what} maps to stored segment {k_want + 1} of {len(sf.segments)} '
                                  f'(period duration {float(pdur)} s from source offset {float(src_start)} s) -> {r.status_code}', rp)
                else:
                    res.violation(f'period-segment-not-retrievable-{addr}', f'{label}: {what} -> {r.status_code} {r.data[:60]!r}', rp,
                                  exception=self.env.rec.last_exception)
                break
            try:
                frag = ib.read_fragment(r.data)
            except Exception as err:
                res.violation(f'period-segment-not-well-formed-{addr}', f'{label}: {what}: {err}', rp)
                break
            payload = r.data[frag.mdat.body:frag.mdat.end]
            ks = self.index.payload[key].get(hashlib.sha1(payload).digest(), [])
            res.count('segments.identified')
            if k_want not in ks:
                res.violation(f'period-segment-delivers-wrong-source-segment-{addr}',
                              f'{label}: {what} delivered stored segment {[k + 1 for k in ks]} but the {j + 1}-th segment '
                              f'from the one nearest source offset {float(src_start)} s is {k_want + 1}', rp)
                break
            tfdt = frag.tfdt[1] if frag.tfdt else None
            dur = sum(ib.sample_durations(frag.trun, frag.tfhd, sf.trex))
            if j == 0:
                if rep.timeline is not None:
                    if tfdt != rep.timeline[0].t:
                        res.violation(f'period-decode-time-differs-from-timeline-{addr}',
                                      f'{label}: first segment tfdt {tfdt}, S@t {rep.timeline[0].t}', rp)
                elif tfdt != 0:
                    res.violation(f'period-decode-time-does-not-start-at-zero-{addr}', f'{label}: first segment tfdt {tfdt}', rp)
            elif expect_tfdt is not None and tfdt != expect_tfdt:
                res.violation(f'period-decode-times-not-gapless-{addr}',
                              f'{label}: {what}: tfdt {tfdt}, previous ended at {expect_tfdt}', rp)
                break
            expect_tfdt = (tfdt or 0) + dur
        self.walk_direct_time(label, rep, sf, key, starts, k0, rp, rng, target=target)
        # beyond the end of the source media
        if rep.timeline is None:
            beyond = rep.start_number + (len(sf.segments) - k0) + rng.randrange(0, 3)
            r = self.get(rep.media_url(number=beyond))
            res.count('past_end.checked')
            if r.status_code != 404:
                res.violation('request-beyond-source-end-not-404',
                              f'{label}: $Number$={beyond} (source has {len(sf.segments)} segments, period starts at '
                              f'segment {k0 + 1}) -> {r.status_code}', rp, exception=self.env.rec.last_exception)


def _noop():
    pass


def run_shard(ctx: ShardCtx) -> ShardResult:
    from dlv.appenv import AppEnv
    from dlv.livewalk import StoredIndex, LiveWalk
    from dlv.reach import Reach
    from dlv.session import UserSession
    from dlv import workload as W
    res = ShardResult()
    env = AppEnv()
    try:
        spk = {'bbb': env.add_fixture_stream('bbb'), 'tears': env.add_fixture_stream('tears'),
               'dots': env.add_dotted_names_stream()}
        from dlv import synth
        synth.add_synthetic_streams(env, ctx, res)
        spk['cut'] = synth.add_short_reference_stream(env, res)
        with env.app.app_context():
            spk['sy2'] = env.models.Stream.get(directory='sy2').pk
        index = StoredIndex(env)
        reach = Reach([
            ('dashlive.server.requesthandler.manifest_context', 'ManifestContext.create_all_vod_periods'),
            ('dashlive.server.requesthandler.manifest_context', 'ManifestContext.create_all_live_periods'),
            ('dashlive.server.requesthandler.media_requests', 'ServeMpsMedia.calculate_media_segment_index'),
            ('dashlive.server.requesthandler.multi_period_streams', 'process_period'),
        ])
        media = UserSession(env, *env.MEDIA)
        walk = MpsWalk(env, res, index)
        rng = ctx.rng
        models_seen: list[tuple[dict, dict]] = []
        ndefs = ctx.scale(10**6, 10**7)
        for i in range(ndefs):
            definition = gen_definition(rng, ctx.shard * 100000 + i, spk)
            env.clock.set(datetime.datetime(2024, 5, 5, 5, 5, 5, tzinfo=UTC))
            if rng.random() < 0.25:
                # stored directly (as populate scripts and older databases do): the source offsets keep their
                # fractions instead of being snapped to a segment start by the API
                from dlv.mps import add_mps_db
                role = {'video': 'main', 'audio': 'main', 'text': 'main'}
                for p_ in definition['periods']:
                    if rng.random() < 0.6:
                        # 4k+2 s is within a few milliseconds of the middle of an audio segment: which stored
                        # segment is nearest then depends on the (irregular) durations around it
                        p_['start'] = rng.choice([6.5, 10.75, 2.25, 5.5, 9.9, 13.125,
                                                  2, 6, 10, 14, 18, 22, 26, 30, 21.99, 22.01])
                        p_['duration'] = min(p_['duration'], SRC_DUR[p_['stream']] - p_['start'] - 2)
                        if p_['duration'] < 4:
                            # (the shorter sources: an offset of 30 s leaves nothing of a 32 s stream)
                            p_['start'], p_['duration'] = rng.choice([2, 6.5, 10]), 16
                info = add_mps_db(env, definition['name'], [
                    {'pid': p_['pid'], 'stream': p_['stream'], 'start': p_['start'], 'duration': p_['duration'],
                     'tracks': [(t, tid, role[t]) for t, tid in p_['tracks']]} for p_ in definition['periods']])
                status, js = 200, {'success': True, 'model': {'periods': [
                    {'pid': q['pid'], 'start': q['start'], 'pk': q['pk']} for q in info['periods']]}}
                res.count('mps.created_in_db')
            else:
                status, js = create_via_api(env, media, spk, definition)
            if status != 200 or not js or not js.get('success'):
                res.count('mps.create_refused')
                res.notes.append(f'create refused: {status} {str(js)[:200]}')
                if status >= 500:
                    res.violation('multi-period-create-5xx', f'{definition} -> {status}',
                                  {'definition': definition}, exception=env.rec.last_exception)
                continue
            res.count('mps.created')
            model = js['model']
            models_seen.append((definition, model))
            for mode in ('vod', 'live'):
                params = {}
                if rng.random() < 0.4:
                    params['timeline'] = '1'
                if rng.random() < 0.3:
                    # DRM over periods whose streams may or may not have encrypted versions of a track
                    # (tears has none: the clear file is used)
                    params['drm'] = rng.choice(['all', 'playready', 'clearkey', 'marlin', 'clearkey-moov,playready-cenc'])
                if mode == 'live':
                    total = sum(float(p['duration']) for p in definition['periods'])
                    now = W.calendar_instants(rng)
                    r = rng.random()
                    if r < 0.7:
                        delta = rng.choice([70, total, total + 1, 2 * total + 3.5, 10 * total + 0.25,
                                            rng.randrange(61, 5000) + rng.random()])
                        start = (now - datetime.timedelta(seconds=delta)).replace(microsecond=0)
                        params['start'] = W.isoz(start)
                        if rng.random() < 0.35:
                            # a clock just past a Period boundary (which need not lie on a whole second)
                            durs = [float(p['duration']) for p in definition['periods']]
                            k = rng.randrange(0, len(durs) + 1)
                            edge = rng.choice([1, 2, 3, 17]) * total + sum(durs[:k])
                            now = start + datetime.timedelta(seconds=edge + rng.choice([0.000001, 0.001, 0.05, 0.3, 0.7]))
                    params['depth'] = str(rng.choice([20, 30, 60, 90, 120]))
                else:
                    now = W.calendar_instants(rng)
                walk.run(definition, model, mode, params, now, rng)
            # ownership: a period of another multi-period stream must not be served under this name
            if len(models_seen) >= 2:
                other_def, other_model = models_seen[-2]
                ppk = other_model['periods'][0]['pk']
                other_stream = other_def['periods'][0]['stream']
                fname = 'bbb_v7' if other_stream == 'bbb' else 'tears_v1'
                r = env.get(f"/mps/vod/{definition['name']}/{ppk}/{fname}/1.m4v", client=walk.client)
                res.count('ownership.checked')
                if r.status_code != 404:
                    res.violation('period-of-another-stream-served',
                                  f"/mps/vod/{definition['name']}/{ppk}/... -> {r.status_code}", {'definition': definition})
            if ctx.out_of_time():
                break
        reach.report(res)
    finally:
        env.close()
    return res
