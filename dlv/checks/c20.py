"""C20 -- the windowed BufferedReader behaves exactly like a slice of the file.

Model-based runtime monitor: the real dashlive.utils.buffered_reader.BufferedReader and a
reference model (the window's bytes + a clamped position, cross-checked against io.BytesIO)
are driven by the same generated operation programs; every return value is compared, and an
invariant wrapper inspects the real object's hooked state after every call.
"""
from __future__ import annotations

import io
import os
import struct
import tempfile

from dlv.core import ShardCtx, ShardResult

PROPERTY = 'C20'
LEVEL = 'exploration'
RULE = ('programs of 1..40 operations over {read(n), read(-1), readall, seek SET/CUR/END (negative, beyond end), '
        'tell, peek(n), the shared handle moved by another user, the reader dropped and a new window opened on the same handle} on windows (offset,size) inside files of 0..6000 bytes (plus 16384-byte-buffer production '
        'geometry on 40-200 kB files), buffersize 1..N dividing and not dividing the window, max_buffers 2..5; '
        'underlying reader is a real file handle or BytesIO. A case is non-trivial when the program performed at '
        'least one data-returning operation with a non-empty expected result; distinct = distinct '
        '(window class, buffer class, cache limit, eviction-happened, op-kind set) signatures.')
ASSUMPTIONS = [
    'model: bytes slice file[offset:offset+size] with position clamped to [0,size]; reads cross-checked with io.BytesIO',
    'windows lie inside the underlying file and size is explicit (the property quantifies over explicit sizes)',
    'peek(n) is required to return a prefix-correct result of at least min(n, remaining) bytes; extra bytes are not judged',
]
REQUIRED_COUNTERS = ['ops.disturb', 'ops.rebind', 'ops.read', 'ops.peek', 'ops.seek', 'ops.readall', 'evictions_observed', 'invariant_checks']


def shards(tier: str) -> int:
    return 16


class Model:
    def __init__(self, data: bytes) -> None:
        self.data = data
        self.pos = 0
        self.bio = io.BytesIO(data)

    def clamp(self) -> None:
        self.pos = max(0, min(self.pos, len(self.data)))
        self.bio.seek(self.pos)

    def seek(self, off: int, whence: int) -> int:
        if whence == 0:
            self.pos = off
        elif whence == 1:
            self.pos += off
        else:
            self.pos = len(self.data) + off
        self.clamp()
        return self.pos

    def read(self, n: int) -> bytes:
        rv = self.bio.read(n)
        assert rv == (self.data[self.pos:] if n < 0 else self.data[self.pos:self.pos + n])
        self.pos += len(rv)
        return rv

    def peek(self, n: int) -> bytes:
        return self.data[self.pos:self.pos + n]


class Spy:
    """Underlying reader wrapper that records (seek, read) calls as witness."""

    def __init__(self, raw) -> None:
        self.raw = raw
        self.log: list[tuple] = []

    def seek(self, *a):
        self.log.append(('seek',) + a)
        return self.raw.seek(*a)

    def tell(self):
        return self.raw.tell()

    def read(self, *a):
        rv = self.raw.read(*a)
        self.log.append(('read',) + a + (len(rv),))
        return rv

    def close(self):
        self.log.append(('close',))
        return self.raw.close()

    def __getattr__(self, name):
        # whatever else the wrapped object offers (read1, readinto, fileno ...) is offered too
        attr = getattr(self.raw, name)
        if callable(attr):
            def call(*a, **kw):
                rv = attr(*a, **kw)
                self.log.append((name,) + a + ((len(rv),) if isinstance(rv, (bytes, bytearray)) else ()))
                return rv
            return call
        return attr


class ForwardOnly:
    """A reader that can only be read forwards (tell() and read(), no seek()): the shape of the HTTP
    response wrapper the media inspector hands to BufferedReader."""

    def __init__(self, data: bytes) -> None:
        self._bio = io.BytesIO(data)
        self.log: list[tuple] = []

    def tell(self):
        return self._bio.tell()

    def read(self, n=-1):
        rv = self._bio.read(n)
        self.log.append(('read', n, len(rv)))
        return rv

    @property
    def closed(self):
        return self.raw.closed


def make_content(rng, length: int, style: int) -> bytes:
    if style == 0:
        return rng.randbytes(length)
    # position-encoding content: any mis-indexed read is visible
    body = b''.join(struct.pack('>H', (i * 7 + 3) & 0xFFFF) for i in range(length // 2 + 1))
    return body[:length]


def gen_forward_case(rng) -> dict:
    """a window at offset 0 over a forward-only reader: data is consumed front to back; going back is
    allowed to anything already read (nothing is evicted), going forward only by reading"""
    flen = rng.choice([0, 1, 7, 64, 100, 1000, 4096, rng.randrange(0, 6000)])
    bs = rng.choice([1, 3, 8, 16, 64, 100, 1000, 4096])
    size = rng.choice([flen, flen, rng.randrange(0, flen + 1)])
    ops, frontier, pos = [], 0, 0
    for _ in range(rng.randrange(1, 30)):
        k = rng.random()
        n = rng.choice([0, 1, 2, bs - 1, bs, bs + 1, 2 * bs + 1, rng.randrange(0, max(1, size) + 2)])
        if k < 0.45:
            ops.append(['read', n])
            pos = min(size, pos + n)
        elif k < 0.65:
            ops.append(['peek', max(1, n)])
            frontier = max(frontier, min(size, pos + max(1, n)))
        elif k < 0.75:
            ops.append(['tell'])
        else:
            back = rng.randrange(0, frontier + 1)
            ops.append(['seek', back, 0])
            pos = back
        frontier = max(frontier, pos)
    return {'flen': flen, 'style': 1, 'content_seed': rng.randrange(2**32), 'offset': 0, 'size': size,
            'buffersize': bs, 'max_buffers': 100000, 'underlying': 'forward', 'ops': ops, 'pre_position': 'start'}


def gen_case(rng, big: bool) -> dict:
    if not big and rng.random() < 0.08:
        return gen_forward_case(rng)
    if big:
        flen = rng.randrange(40000, 200000)
        bs = 16384
    else:
        flen = rng.choice([0, 1, 2, 3, 7, 8, 16, 63, 64, 65, 100, 255, 256, 1000, 4096,
                           rng.randrange(0, 6000), rng.randrange(0, 300)])
        bs = rng.choice([1, 2, 3, 4, 5, 7, 8, 16, 17, 31, 32, 64, 100, 128, 1000, 4096, 16384,
                         rng.randrange(1, 200)])
    offset = rng.choice([0, 0, 1, bs - 1, bs, bs + 1, rng.randrange(0, flen + 1)])
    offset = max(0, min(offset, flen))
    rest = flen - offset
    size = rng.choice([rest, rest, 0, 1, bs, bs - 1, bs + 1, 2 * bs, 3 * bs + 1, rng.randrange(0, rest + 1)])
    size = max(0, min(size, rest))
    maxb = rng.choice([2, 2, 3, 4, 5, 30])
    nops = rng.randrange(1, 41)
    ops = []
    for _ in range(nops):
        k = rng.random()
        span = max(1, size)
        amount = rng.choice([0, 1, 2, bs - 1, bs, bs + 1, 2 * bs, 3 * bs + 2, size, size + 1,
                             rng.randrange(0, span + 2), rng.randrange(0, min(span, 4 * bs) + 2)])
        amount = max(0, amount)
        if flen and k < 0.05:
            # another user of the same file handle moves it (the handle is shared: the media-file editor
            # reads box headers from the handle its windowed readers wrap)
            ops.append(['disturb', rng.randrange(0, flen + 1), rng.choice([0, 1, bs, 17])])
        elif flen and k < 0.09:
            # the reader is dropped and a new window is opened on the same handle, as a loop over the
            # fragments of a file does
            o2 = rng.randrange(0, flen + 1)
            ops.append(['rebind', o2, rng.randrange(0, flen - o2 + 1), rng.random() < 0.5])
        elif k < 0.30:
            ops.append(['read', amount])
        elif k < 0.50:
            ops.append(['peek', max(1, amount)])
        elif k < 0.55:
            ops.append(['read', -1])
        elif k < 0.60:
            ops.append(['readall'])
        elif k < 0.68:
            ops.append(['tell'])
        else:
            whence = rng.choice([0, 0, 1, 2])
            if whence == 0:
                off = rng.choice([0, size, size + 3, -1, rng.randrange(-2, span + 3),
                                  (rng.randrange(0, span) // bs) * bs])
            elif whence == 1:
                off = rng.choice([0, 1, -1, bs, -bs, rng.randrange(-span, span + 1)])
            else:
                off = rng.choice([0, -1, 1, -bs, -size, -size - 1, rng.randrange(-span - 1, 2)])
            ops.append(['seek', off, whence])
    return {'flen': flen, 'style': rng.randrange(2), 'content_seed': rng.randrange(2**32),
            'offset': offset, 'size': size, 'buffersize': bs, 'max_buffers': maxb,
            'underlying': rng.choice(['file', 'bytesio']), 'ops': ops,
            'pre_position': rng.choice(['start', 'offset', 'random'])}


def run_case(case: dict, res: ShardResult, BufferedReader, tmpdir: str, rng_mod) -> None:
    crng = rng_mod.Random(case['content_seed'])
    content = make_content(crng, case['flen'], case['style'])
    offset, size, bs = case['offset'], case['size'], case['buffersize']
    window = content[offset:offset + size]
    model = Model(window)
    fh = None
    if case['underlying'] == 'file':
        path = os.path.join(tmpdir, 'c20.bin')
        with open(path, 'wb') as f:
            f.write(content)
        fh = open(path, 'rb', buffering=rng_mod.Random(case['content_seed']).choice([0, 16, 4096, -1]))
        raw = fh
    elif case['underlying'] == 'forward':
        raw = ForwardOnly(content)
    else:
        raw = io.BytesIO(content)
    if case['pre_position'] == 'offset':
        raw.seek(offset)
    elif case['pre_position'] == 'random' and case['flen']:
        raw.seek(crng.randrange(case['flen']))
    spy = raw if case['underlying'] == 'forward' else Spy(raw)
    if case['underlying'] == 'forward':
        res.count('cases.forward_only_reader')
    rd = BufferedReader(spy, buffersize=bs, offset=offset, size=size, max_buffers=case['max_buffers'])
    nontrivial = False
    evicted = False
    kinds = set()
    try:
        for idx, op in enumerate(case['ops']):
            name = op[0]
            kinds.add(name if name != 'seek' else f'seek{op[2]}')
            before = len(rd.buffers)
            want_pos = None
            problem = None
            try:
                if name == 'read':
                    n = op[1]
                    got = rd.read(n)
                    want = model.read(n)
                    res.count('ops.readall' if n == -1 else 'ops.read')
                    if got != want or not isinstance(got, (bytes, bytearray)):
                        problem = _describe('readall' if n == -1 else 'read', got, want, window,
                                            offset, content)
                    nontrivial = nontrivial or bool(want)
                elif name == 'readall':
                    got = rd.readall()
                    want = model.read(-1)
                    res.count('ops.readall')
                    if got != want or not isinstance(got, (bytes, bytearray)):
                        problem = _describe('readall', got, want, window, offset, content)
                    nontrivial = nontrivial or bool(want)
                elif name == 'peek':
                    n = op[1]
                    p0 = rd.tell()
                    got = rd.peek(n)
                    want = model.peek(n)
                    res.count('ops.peek')
                    if not isinstance(got, (bytes, bytearray)):
                        problem = ('eof-returns-str-not-bytes' if got == '' and want == b''
                                   else 'peek-wrong-type', f'peek({n}) returned {type(got).__name__} {got!r}')
                    elif len(got) < len(want) or got[:len(want)] != want:
                        problem = _describe('peek', got[:len(want)], want, window, offset, content)
                    if rd.tell() != p0:
                        problem = ('peek-moves-position', f'peek({n}) moved position {p0} -> {rd.tell()}')
                    nontrivial = nontrivial or bool(want)
                elif name == 'disturb':
                    raw.seek(op[1])
                    raw.read(op[2])
                    res.count('ops.disturb')
                    before = len(rd.buffers)
                elif name == 'rebind':
                    import gc
                    if op[3]:
                        rd = None
                        gc.collect()
                    offset, size = op[1], op[2]
                    window = content[offset:offset + size]
                    model = Model(window)
                    rd = BufferedReader(spy, buffersize=bs, offset=offset, size=size, max_buffers=case['max_buffers'])
                    gc.collect()
                    res.count('ops.rebind')
                    before = 0
                    if getattr(raw, 'closed', False):
                        problem = ('dropping-a-reader-closes-the-shared-file',
                                   'the underlying file object is closed after an earlier reader over it was dropped')
                elif name == 'tell':
                    got = rd.tell()
                    res.count('ops.tell')
                    if got != model.pos:
                        problem = ('tell-disagrees', f'tell() = {got}, model {model.pos}')
                else:
                    got = rd.seek(op[1], op[2])
                    want = model.seek(op[1], op[2])
                    res.count('ops.seek')
                    if got != want:
                        problem = ('seek-result-disagrees', f'seek({op[1]},{op[2]}) = {got}, model {want}')
            except Exception as err:  # the model never raises on these programs
                problem = ('operation-raises', f'{op} raised {err!r}')
            # invariant at a hook: inspected after every call
            res.count('invariant_checks')
            if problem is None:
                if rd.pos != model.pos:
                    problem = ('position-disagrees', f'after {op}: pos {rd.pos}, model {model.pos}')
                elif not (0 <= rd.pos <= size):
                    problem = ('position-outside-window', f'after {op}: pos {rd.pos} not in [0,{size}]')
                elif rd.num_buffers != len(rd.buffers) or len(rd.buffers) > rd.max_buffers:
                    problem = ('cache-accounting-broken',
                               f'num_buffers={rd.num_buffers} len={len(rd.buffers)} max={rd.max_buffers}')
            if len(rd.buffers) <= before and before == rd.max_buffers and name in ('read', 'peek'):
                evicted = True
            if problem is not None:
                mech, msg = problem
                res.violation(mech, f'{msg} | geometry flen={case["flen"]} offset={offset} size={size} '
                                    f'buffersize={bs} max_buffers={case["max_buffers"]} op#{idx}={op} '
                                    f'underlying-calls(last 6)={spy.log[-6:]}',
                              {'case': {**case, 'ops': case['ops'][:idx + 1]}})
                break
    finally:
        if fh is not None:
            fh.close()
    if evicted:
        res.count('evictions_observed')
    wclass = ('empty' if size == 0 else 'whole' if (offset == 0 and size == case['flen']) else
              'tail' if offset + size == case['flen'] else 'inner')
    bclass = ('1' if bs == 1 else 'divides' if size and size % bs == 0 else
              'bigger' if bs > size else 'ragged')
    aligned = 'aligned' if offset % bs == 0 else 'midbuffer'
    key = f'{wclass}|{bclass}|{aligned}|mb{case["max_buffers"]}|ev{int(evicted)}|{"+".join(sorted(kinds))}'
    res.case(key if nontrivial else None,
             {'flen': case['flen'], 'offset': offset, 'size': size, 'buffersize': bs,
              'max_buffers': case['max_buffers'], 'ops': case['ops'][:6]} if nontrivial else None)
    res.bucket('window', wclass)
    res.bucket('buffer', bclass + '/' + aligned)


def _describe(opname, got, want, window, offset, content):
    if not isinstance(got, (bytes, bytearray)):
        if got == '' and want == b'':
            return ('eof-returns-str-not-bytes', f'{opname} at end of window returned str {got!r}, not bytes')
        return (f'{opname}-wrong-type', f'{opname} returned {type(got).__name__}')
    mech = f'{opname}-data-disagrees'
    where = ''
    if opname == 'readall' and got != want:
        mech = 'readall-ignores-window'
    elif got and len(got) > len(want) and got[:len(want)] == want:
        mech = f'{opname}-returns-data-outside-window'
    if got and got != want:
        idx = content.find(bytes(got[:8]))
        where = f' (returned bytes are at file position {idx}, window starts at {offset})'
    return (mech, f'{opname}: got {len(got)} bytes {bytes(got[:12]).hex()}.., '
                  f'model {len(want)} bytes {want[:12].hex()}..{where}')


def run_shard(ctx: ShardCtx) -> ShardResult:
    import random as rng_mod
    from dashlive.utils.buffered_reader import BufferedReader
    res = ShardResult()
    tmpdir = tempfile.mkdtemp(prefix='c20_')
    try:
        if ctx.replay:
            run_case(ctx.replay['replay']['case'], res, BufferedReader, tmpdir, rng_mod)
            return res
        n = ctx.scale(12000, 400000)
        for i in range(n):
            case = gen_case(ctx.rng, big=(i % 50 == 49))
            run_case(case, res, BufferedReader, tmpdir, rng_mod)
            if i % 256 == 0 and ctx.out_of_time():
                res.notes.append(f'stopped after {i} programs (time budget)')
                break
        # the `data=` constructor shape (whole buffer preloaded)
        for i in range(ctx.scale(300, 5000)):
            data = ctx.rng.randbytes(ctx.rng.randrange(0, 300))
            rd = BufferedReader(None, data=data)
            model = Model(data)
            for _ in range(ctx.rng.randrange(1, 12)):
                n_ = ctx.rng.randrange(0, len(data) + 3)
                try:
                    if ctx.rng.random() < 0.5:
                        got, want = rd.read(n_), model.read(n_)
                    else:
                        o = ctx.rng.randrange(-2, len(data) + 3)
                        got, want = rd.seek(o), model.seek(o, 0)
                except Exception as err:    # the model never raises on these programs
                    res.violation('operation-raises', f'BufferedReader(data=..) operation raised {err!r}',
                                  {'preloaded': data.hex()})
                    break
                res.count('ops.preloaded')
                if got != want:
                    mech = 'eof-returns-str-not-bytes' if got == '' else 'preloaded-data-disagrees'
                    res.violation(mech, f'BufferedReader(data=..) op result {got!r} != {want!r}',
                                  {'preloaded': data.hex()})
                    break
            res.evaluations += 1
    finally:
        import shutil
        shutil.rmtree(tmpdir, ignore_errors=True)
    return res
