"""C14 -- timed events are delivered exactly once and decode to their schedule.

Offline exactly-once checker over histories of consecutive segment responses recorded at the
HTTP boundary (emsg boxes read by the independent walker), out-of-band EventStream check on
the manifest, an independent SCTE-35 bit reader + CRC on every payload, and an
encode/parse identity monitor on BinarySignal for generated field values.
"""
from __future__ import annotations

import base64
import datetime
from fractions import Fraction

from dlv.core import ShardCtx, ShardResult
from dlv.oracles import isobmff as ib
from dlv.oracles import mpd as M
from dlv.oracles import scte35_ref

PROPERTY = 'C14'
LEVEL = 'exploration'
RULE = ('schedules (type ping/scte35, start, interval from 1 tick to 10 segments incl. exactly one segment and co-prime '
        'values, count 0/1/2/.., duration, timescale, emsg version, inband flag) x runs of 3..60 consecutive video '
        'segments in vod ($Number$ and $Time$) and live (all segments a manifest advertises, across source loops) x '
        'streams; SCTE-35 signals with field values over their bit widths. Non-trivial run = at least one event was '
        'expected inside the run; distinct = (mode, addressing, type, version, count class, interval-vs-segment class, '
        'inband).')
ASSUMPTIONS = [
    'an event within one tick (of the coarser of event/track timescale) of a segment or run boundary may be placed on either side',
    'out-of-band listing is judged for count > 0 (an unbounded schedule cannot be enumerated in a manifest)',
    'oracles: own emsg reader (walker), own SCTE-35 bit reader and CRC-32/MPEG-2 (self-tested on the ANSI/SCTE 35 examples)',
    'shims + werkzeug test client as HTTP boundary',
]
REQUIRED_COUNTERS = ['scte35.empty_upids', 'runs.two_event_types', 'runs.vod', 'runs.live', 'events.inband_checked', 'events.outofband_checked',
                     'scte35.payloads_checked', 'scte35.roundtrips', 'reach.create_emsg_boxes',
                     'reach.create_binary_signal', 'reach.create_manifest_context']

UTC = datetime.timezone.utc
SCHEMES = {'ping': b'urn:dash-live:pingpong:2022', 'scte35': b'urn:scte:scte35:2014:xml+bin'}
MPEG_TIMEBASE = 90000


def shards(tier: str) -> int:
    return 16


def gen_schedule(rng, seg_ticks_at_100: int = 400) -> dict:
    ts = rng.choice([100, 100, 1, 10, 25, 240, 1000, 90000, 44100])
    seg = 4 * ts          # one 4 s video segment in event ticks
    interval = rng.choice([1, 2, max(1, seg // 8), max(1, seg // 3), max(1, seg // 2), seg, seg + 1, max(1, seg - 1),
                           2 * seg, 3 * seg + 7, 10 * seg, max(1, (seg * 7) // 5), rng.randrange(1, 5 * seg + 1)])
    if interval * 40 < seg:      # keep the number of events per segment bounded (<= ~40)
        interval = max(interval, seg // 40 + 1)
    count = rng.choice([0, 0, 1, 2, 3, 4, 5, 8, 10, 50, rng.randrange(1, 30)])
    start = rng.choice([0, 0, 1, seg // 2, seg, seg - 1, seg + 1, 3 * seg, 9 * seg, 10 * seg, 12 * seg,
                        rng.randrange(0, 12 * seg + 1)])
    s = {'timescale': ts, 'interval': interval, 'count': count, 'start': start,
         'duration': rng.choice([0, 1, ts, 2 * ts, 200]), 'version': rng.choice([0, 1]),
         'inband': rng.random() < 0.8, 'value': rng.choice([None, '0', '7'])}
    if rng.random() < 0.12:
        # one or two options present but blank (or "none"): they take their documented defaults
        blank = rng.sample(['interval', 'start', 'duration', 'count', 'timescale'], rng.choice([1, 1, 2]))
        for k in blank:
            s[k] = EVENT_DEFAULTS[k]
        s['blank'], s['blank_text'] = blank, rng.choice(['', 'none'])
    return s


# what an event option means when it is absent or sent blank (an HTML form posts a blank number field as "")
EVENT_DEFAULTS = {'timescale': 100, 'interval': 1000, 'count': 0, 'start': 0, 'duration': 200, 'version': 0}


def schedule_params(kind: str, s: dict) -> dict:
    p = {'events': kind}
    for k in ('timescale', 'interval', 'count', 'start', 'duration', 'version'):
        p[f'{kind}__{k}'] = str(s[k])
    for k in s.get('blank', ()):
        p[f'{kind}__{k}'] = s['blank_text']
    p[f'{kind}__inband'] = '1' if s['inband'] else '0'
    if s.get('value') is not None and kind == 'ping':
        p[f'{kind}__value'] = s['value']
    return p


class EventChecker:
    def __init__(self, res: ShardResult) -> None:
        self.res = res

    def check_run(self, kind: str, s: dict, segs: list[dict], rep_ts: int, replay: dict, label: str) -> bool:
        """segs: consecutive [{'tfdt', 'dur', 'emsg': [...]}] ; returns True when >=1 event expected"""
        res = self.res
        ev_ts = s['timescale']
        version = 1 if (kind == 'scte35' and s['inband']) else s['version']
        tol = Fraction(1, min(ev_ts, rep_ts))
        scheme = SCHEMES[kind]
        run_start = Fraction(segs[0]['tfdt'], rep_ts)
        run_end = Fraction(segs[-1]['tfdt'] + segs[-1]['dur'], rep_ts)

        def P(k):
            return Fraction(s['start'] + k * s['interval'], ev_ts)

        def k_range(lo: Fraction, hi: Fraction):
            """ids with lo <= P_k < hi"""
            a = (lo * ev_ts - s['start']) / s['interval']
            k_lo = max(0, -((-a.numerator) // a.denominator))
            b = (hi * ev_ts - s['start']) / s['interval']
            k_hi = -((-b.numerator) // b.denominator) - 1    # largest k with P_k < hi
            if s['count'] > 0:
                k_hi = min(k_hi, s['count'] - 1)
            return set(range(k_lo, k_hi + 1)) if k_hi >= k_lo else set()

        # the id field of an emsg box (and splice_event_id) has 32 bits: event k is carried as k mod 2**32.
        # Observed ids are mapped back to the k nearest to the run
        a0 = (run_start * ev_ts - s['start']) / s['interval']
        k_ref = max(0, a0.numerator // a0.denominator)

        def unwrap(i: int) -> int:
            return i + ((k_ref - i + 2**31) // 2**32) * 2**32

        observed: list[tuple[int, int]] = []     # (id, segment index)
        for si, seg in enumerate(segs):
            for e in seg['emsg']:
                if e['scheme_id_uri'] != scheme:
                    continue
                if k_ref >= 2**32:
                    self.res.count('events.ids_beyond_32_bits')
                observed.append((unwrap(e['id']), si))
                self.check_event(kind, s, version, dict(e, id=unwrap(e['id'])), seg, rep_ts, tol, replay, label)
        ids = [i for i, _ in observed]
        if not s['inband']:
            if ids:
                res.violation('emsg-present-for-out-of-band-schedule', f'{label}: ids {ids[:10]}', replay)
            return False
        must = k_range(run_start + tol, run_end - tol)
        may = k_range(run_start - tol, run_end + tol)
        res.count('events.expected', len(must))
        dup = sorted({i for i in ids if ids.count(i) > 1})
        if dup:
            res.violation('event-delivered-more-than-once', f'{label}: ids {dup[:10]} appear more than once '
                                                            f'(schedule {s})', replay)
        missing = sorted(must - set(ids))
        extra = sorted(set(ids) - may)
        if missing:
            res.violation('scheduled-event-missing', f'{label}: ids {missing[:10]} missing from a run covering '
                                                     f'[{float(run_start)}, {float(run_end)}) s (schedule {s})', replay)
        if extra:
            beyond = [i for i in extra if s['count'] > 0 and i >= s['count']]
            mech = 'event-id-not-below-count' if beyond else 'unscheduled-event-delivered'
            res.violation(mech, f'{label}: ids {extra[:10]} delivered but not scheduled inside '
                                f'[{float(run_start)}, {float(run_end)}) s (schedule {s})', replay)
        # containing segment
        for i, si in observed:
            seg = segs[si]
            lo = Fraction(seg['tfdt'], rep_ts) - tol
            hi = Fraction(seg['tfdt'] + seg['dur'], rep_ts) + tol
            if not (lo <= P(i) < hi):
                res.violation('event-in-wrong-segment',
                              f'{label}: event {i} at {float(P(i))} s delivered in segment '
                              f'[{float(lo + tol)}, {float(hi - tol)}) s (schedule {s})', replay)
        return bool(must)

    def check_event(self, kind, s, version, e, seg, rep_ts, tol, replay, label) -> None:
        res = self.res
        res.count('events.inband_checked')
        k = e['id']
        want = Fraction(s['start'] + k * s['interval'], s['timescale'])
        if e['version'] != version:
            res.violation('emsg-version-differs', f'{label}: emsg v{e["version"]} want v{version}', replay)
        if e['timescale'] != s['timescale']:
            res.violation('emsg-timescale-differs', f'{label}: {e["timescale"]} want {s["timescale"]}', replay)
            return
        if e['version'] == 1:
            got = Fraction(e['presentation_time'], e['timescale'])
            exact = True
        else:
            got = Fraction(seg['tfdt'], rep_ts) + Fraction(e['presentation_time_delta'], e['timescale'])
            exact = False
        if (exact and got != want) or abs(got - want) > tol:
            res.violation('event-time-does-not-resolve-to-schedule',
                          f'{label}: event {k} resolves to {float(got)} s, scheduled {float(want)} s', replay)
        if e['event_duration'] != s['duration']:
            res.violation('event-duration-differs', f'{label}: {e["event_duration"]} want {s["duration"]}', replay)
        if kind == 'ping':
            if e['data'] != (b'ping' if k % 2 == 0 else b'pong'):
                res.violation('ping-payload-wrong', f'{label}: event {k} payload {e["data"]!r}', replay)
        else:
            self.check_scte35(e['data'], s, k, replay, label)

    def check_scte35(self, data: bytes, s: dict, k: int, replay, label) -> None:
        res = self.res
        res.count('scte35.payloads_checked')
        try:
            sig = scte35_ref.parse(data)
        except Exception as err:
            res.violation('scte35-payload-not-parseable', f'{label}: event {k}: {type(err).__name__}: {err}', replay)
            return
        if not sig['crc_valid']:
            res.violation('scte35-crc-invalid', f'{label}: event {k}', replay)
        si = sig.get('splice_insert')
        if si is None:
            res.violation('scte35-not-a-splice-insert', f'{label}: command {sig["splice_command_type"]}', replay)
            return
        pt = s['start'] + k * s['interval']
        want_pts = (pt * MPEG_TIMEBASE // s['timescale']) & 0x1FFFFFFFF
        want_dur = s['duration'] * MPEG_TIMEBASE // s['timescale']
        if si['splice_event_id'] != k % 2**32:
            res.violation('scte35-event-id-differs', f'{label}: splice_event_id {si["splice_event_id"]} want {k}', replay)
        if si.get('pts') != want_pts:
            res.violation('scte35-pts-differs', f'{label}: event {k}: pts {si.get("pts")} want {want_pts}', replay)
        if si.get('break_duration') != want_dur:
            res.violation('scte35-break-duration-differs',
                          f'{label}: event {k}: break_duration {si.get("break_duration")} want {want_dur}', replay)


def read_segment(data: bytes, trex):
    frag = ib.read_fragment(data)
    durs = ib.sample_durations(frag.trun, frag.tfhd, trex)
    return {'tfdt': frag.tfdt[1] if frag.tfdt else None, 'dur': sum(durs), 'emsg': frag.emsg,
            'order_ok': all(t != 'emsg' for t in frag.top_types[frag.top_types.index('moof'):])}


def run_http(ctx: ShardCtx, res: ShardResult, env, checker: EventChecker) -> None:
    from dlv.livewalk import qs, LiveWalk
    rng = ctx.rng
    client = env.client()
    reps = {'bbb': ('bbb_v7', 240, 10), 'tears': ('tears_v1', 240, 16)}
    trex = {}
    starts = {}
    for (d, n), buf in env.stored.items():
        sf_ = ib.index_file(buf)
        trex[n] = sf_.trex
        acc, st = 0, []
        for sg in sf_.segments:
            st.append(acc)
            acc += sg.duration
        starts[n] = st
        if d == 'syn' and sf_.handler == b'vide':
            # synthetic video whose segments all have different durations (90 kHz)
            reps['syn'] = (n, sf_.timescale, len(sf_.segments))
    n_runs = ctx.scale(10**6, 10**7)
    for i in range(n_runs):
        stream = rng.choice(list(reps))
        rid, rep_ts, nseg = reps[stream]
        kind = rng.choice(['ping', 'scte35'])
        s = gen_schedule(rng)
        params = schedule_params(kind, s)
        # a second event stream of the other type (its own schedule) on the same request, in either order
        others: dict[str, dict] = {}
        if rng.random() < 0.3:
            k2 = 'scte35' if kind == 'ping' else 'ping'
            others[k2] = gen_schedule(rng)
            params.update(schedule_params(k2, others[k2]))
            params['events'] = f'{kind},{k2}' if rng.random() < 0.5 else f'{k2},{kind}'
        mode = rng.choice(['vod', 'vod-time', 'live', 'live'])
        segs = []
        label = ''
        replay = {'run': {'stream': stream, 'kind': kind, 'schedule': s, 'mode': mode, 'others': others,
                          'events': params['events']}}
        if mode.startswith('vod'):
            first = rng.randrange(1, nseg - 1)
            last = rng.randrange(first + 2, nseg + 1) if first + 2 <= nseg else nseg
            urls = []
            for n in range(first, last + 1):
                if mode == 'vod':
                    urls.append(f'/dash/vod/{stream}/{rid}/{n}.m4v' + qs(params))
                else:
                    urls.append(f'/dash/vod/{stream}/{rid}/time/{starts[rid][n - 1]}.m4v' + qs(params))
            env.clock.set(datetime.datetime(2024, 3, 3, 3, 3, 3, tzinfo=UTC))
            label = f'{mode} {stream}/{rid} segments {first}..{last}'
            replay['run']['urls'] = urls
            res.count('runs.vod')
        else:
            # live: everything a manifest with these event options advertises for the video track
            manifest = rng.choice(['hand_made.mpd', 'manifest_n.mpd'])
            depth = rng.choice([12, 16, 30, 44, 60, 90, 130, 240])
            # the presentation clock is small so that schedules (start/count) fall inside the window
            elapsed = rng.choice([depth + 1, depth + rng.randrange(0, 200), rng.randrange(depth, 10 * depth + 100),
                                  # days of uptime: the 33 bit PTS of SCTE-35 wraps every 26.5 hours
                                  95443 + rng.randrange(-30, 300), rng.randrange(2, 60) * 86400 + rng.randrange(86400),
                                  # a stream that began decades ago (start=epoch): event numbers beyond 32 bits
                                  rng.randrange(15, 55) * 365 * 86400 + rng.randrange(86400)])
            t0 = datetime.datetime(2024, 7, 1, 0, 0, 0, tzinfo=UTC) if elapsed < 10 * 365 * 86400 else \
                datetime.datetime(1970, 1, 1, tzinfo=UTC)
            now = t0 + datetime.timedelta(
                seconds=elapsed, microseconds=rng.choice([0, 1, 500000, rng.randrange(10**6)]))
            mp = dict(params)
            mp.update({'start': t0.strftime('%Y-%m-%dT%H:%M:%SZ'), 'depth': str(depth)})
            if manifest == 'hand_made.mpd' and rng.random() < 0.5:
                mp['timeline'] = '1'
            # shift the schedule near the window so that events are expected
            if rng.random() < 0.7:
                shift = max(0, int((elapsed - depth) * s['timescale']) - rng.randrange(0, 8 * s['timescale']))
                s['start'] += shift
                mp[f'{kind}__start'] = str(s['start'])
                replay['run']['schedule'] = s
                for k2, s2 in others.items():
                    s2['start'] += max(0, int((elapsed - depth) * s2['timescale']) - rng.randrange(0, 8 * s2['timescale']))
                    mp[f'{k2}__start'] = str(s2['start'])
            env.clock.set(now)
            murl = f'/dash/live/{stream}/{manifest}' + qs(mp)
            r = env.get(murl, client=client)
            if r.status_code != 200:
                res.count(f'manifest.status.{r.status_code}')
                continue
            doc = M.parse_mpd(r.data, 'http://localhost' + murl)
            urls = []
            for period, rep in doc.all_reps():
                if rep.id == rid:
                    adds = M.live_addressable(doc, period, rep, now)
                    urls = [LiveWalk._path(a.url) for a in adds]
            if len(urls) < 3:
                continue
            label = f'live {murl} at {now.isoformat()} ({len(urls)} segments)'
            replay['run'].update({'manifest_url': murl, 'now': now.isoformat()})
            res.count('runs.live')
            self_check_manifest_events(res, doc, kind, s, replay, label, checker)
            for k2, s2 in others.items():
                self_check_manifest_events(res, doc, k2, s2, replay, label + f' [{k2} of {mp["events"]}]', checker)
        ok = True
        for u in urls:
            r = env.get(u, client=client)
            if r.status_code != 200:
                ok = False
                res.count('run.segment_refused')
                res.count(f'run.segment_refused.{r.status_code}')
                if r.status_code >= 500:
                    info = env.rec.last_exception or {}
                    res.violation('segment-with-events-answers-5xx',
                                  f'{label}: {u} -> {r.status_code}: {info.get("repr", "")[:200]}', replay,
                                  traceback=(info.get('traceback') or '')[-1200:])
                if len(res.notes) < 3:
                    res.notes.append(f'segment refused: {r.status_code} {u} {r.data[:60]!r} exc={(env.rec.last_exception or {}).get("repr")}')
                break
            seg = read_segment(r.data, trex[rid])
            if not seg['order_ok']:
                res.violation('emsg-after-moof', f'{label}: {u}', replay)
            segs.append(seg)
        res.evaluations += 1
        if not ok or len(segs) < 2:
            continue
        # consecutive?
        contiguous = all(a['tfdt'] + a['dur'] == b['tfdt'] for a, b in zip(segs, segs[1:]))
        if not contiguous:
            res.count('runs.not_contiguous')
            continue
        nontrivial = checker.check_run(kind, s, segs, rep_ts, replay, label)
        for k2, s2 in others.items():
            res.count('runs.two_event_types')
            if checker.check_run(k2, s2, segs, rep_ts, replay, label + f' [{k2} of events={params["events"]}]'):
                res.count('runs.two_event_types_nontrivial')
        ratio = Fraction(s['interval'], 4 * s['timescale'])
        icls = 'lt-seg' if ratio < 1 else 'eq-seg' if ratio == 1 else 'gt-seg'
        if nontrivial:
            res.keys.add(f'{mode}|{kind}|v{s["version"]}|c{"0" if s["count"] == 0 else "n"}|{icls}|ib{int(s["inband"])}|ts{s["timescale"]}')
            if len(res.samples) < 5:
                res.samples.append({'run': label, 'schedule': s,
                                    'event_ids_seen': [e['id'] for sg in segs for e in sg['emsg']][:20]})
        if ctx.out_of_time():
            break


def self_check_manifest_events(res, doc, kind, s, replay, label, checker) -> None:
    """EventStream / InbandEventStream declarations of the manifest against the schedule."""
    ns = {'d': M.NS}
    root = doc.root
    scheme = SCHEMES[kind].decode()
    if s['inband']:
        found = [e for e in root.iter('{%s}InbandEventStream' % M.NS) if e.get('schemeIdUri') == scheme]
        if not found:
            res.violation('inband-event-stream-not-declared', f'{label}: no InbandEventStream for {scheme}', replay)
        elif found[0].get('timescale') != str(s['timescale']):
            res.violation('event-stream-timescale-differs', f'{label}', replay)
        return
    streams = [e for e in root.iter('{%s}EventStream' % M.NS) if e.get('schemeIdUri') == scheme]
    if not streams:
        res.violation('event-stream-not-declared', f'{label}: no EventStream for {scheme}', replay)
        return
    es = streams[0]
    if es.get('timescale') != str(s['timescale']):
        res.violation('event-stream-timescale-differs', f'{label}: {es.get("timescale")}', replay)
    if s['count'] <= 0:
        return
    events = es.findall('{%s}Event' % M.NS)
    got = [(int(e.get('id')), int(e.get('presentationTime')), int(e.get('duration'))) for e in events]
    want = [(k, s['start'] + k * s['interval'], s['duration']) for k in range(s['count'])]
    res.count('events.outofband_checked', len(got))
    if got != want:
        res.violation('out-of-band-event-list-differs-from-schedule',
                      f'{label}: manifest lists {got[:6]}.. ({len(got)}), schedule {want[:6]}.. ({len(want)})', replay)
    for e, (k, pt, _) in zip(events, want):
        if kind == 'ping':
            txt = (e.text or '').strip()
            if txt != ('ping' if k % 2 == 0 else 'pong'):
                res.violation('ping-payload-wrong', f'{label}: manifest event {k} payload {txt!r}', replay)
        else:
            b = e.find('.//{http://www.scte.org/schemas/35/2016}Binary')
            if b is None or not b.text:
                res.violation('scte35-binary-missing-in-manifest', f'{label}: event {k}', replay)
                continue
            try:
                data = base64.b64decode(b.text.strip(), validate=True)
            except Exception as err:
                res.violation('scte35-binary-not-base64', f'{label}: {err}', replay)
                continue
            checker.check_scte35(data, s, k, replay, label + ' (manifest)')


def run_scte35_roundtrip(ctx: ShardCtx, res: ShardResult) -> None:
    """BinarySignal(**fields).encode() -> parse identity, CRC recomputed independently."""
    import io
    from dashlive.scte35.binarysignal import BinarySignal
    from dashlive.scte35.splice_insert import SpliceInsert
    from dashlive.scte35 import descriptors
    from dashlive.utils.buffered_reader import BufferedReader
    rng = ctx.rng

    def bits(n):
        return rng.choice([0, 1, (1 << n) - 1, (1 << (n - 1)), rng.randrange(1 << n)])
    n = ctx.scale(3000, 120000)
    for i in range(n):
        kind = rng.choice(['insert', 'insert', 'insert-immediate', 'insert-cancel', 'time_signal', 'null'])
        fields = {'pts_adjustment': bits(33), 'cw_index': bits(8), 'tier': bits(12),
                  'protocol_version': 0, 'sap_type': rng.randrange(4), 'private_indicator': rng.random() < 0.1}
        si = None
        if kind.startswith('insert'):
            si = {'splice_event_id': bits(32), 'unique_program_id': bits(16), 'avail_num': bits(8),
                  'avails_expected': bits(8), 'out_of_network_indicator': rng.random() < 0.5}
            if kind == 'insert-cancel':
                si['splice_event_cancel_indicator'] = True
            elif kind == 'insert-immediate':
                si['splice_immediate_flag'] = True
                si['splice_time'] = {'pts': None} if rng.random() < 0.5 else None
            else:
                si['splice_time'] = {'pts': rng.choice([bits(33), None])}
            if kind != 'insert-cancel' and rng.random() < 0.7:
                si['break_duration'] = {'duration': bits(33), 'auto_return': rng.random() < 0.5}
            else:
                si['break_duration'] = None
            fields['splice_insert'] = SpliceInsert(**si)
        elif kind == 'time_signal':
            fields['time_signal'] = {'pts': rng.choice([bits(33), None])}
        descs = []
        seg_fields = None
        if rng.random() < 0.6:
            seg_fields = {'segmentation_event_id': bits(32),
                          'segmentation_duration': rng.choice([0, None, bits(40), 1, 90000 * 30]),
                          'segmentation_type': rng.choice([0x34, 0x35, 0x36, 0x37, 0x10, 0x30, 0x38, 0x3A, 0x00, 0x50])}
            r = rng.random()
            if r < 0.45:
                # a unique programme identifier: any type with any length, a present but empty one included
                # (type 0 "not used" with length 0 is what encoders write when there is none)
                from dashlive.utils.binary import Binary
                upid = rng.choice([b'', b'', rng.randbytes(8), rng.randbytes(12), b'ABCD0123456H', rng.randbytes(rng.randrange(1, 40))])
                seg_fields['segmentation_upid_type'] = rng.choice([0x00, 0x01, 0x08, 0x09, 0x0C, 0x0E, 0x0F, bits(8)])
                seg_fields['segmentation_upid'] = Binary(upid, encoding=Binary.BASE64)
            if rng.random() < 0.4:
                seg_fields.update({'segment_num': bits(8), 'segments_expected': bits(8)})
                if seg_fields['segmentation_type'] in (0x34, 0x36, 0x38, 0x3A):
                    seg_fields.update({'sub_segment_num': bits(8), 'sub_segments_expected': bits(8)})
            if rng.random() < 0.3:
                seg_fields.update({'delivery_not_restricted_flag': False, 'web_delivery_allowed_flag': rng.random() < 0.5,
                                   'no_regional_blackout_flag': rng.random() < 0.5, 'archive_allowed_flag': rng.random() < 0.5,
                                   'device_restrictions': rng.randrange(4)})
            if rng.random() < 0.1:
                seg_fields = {'segmentation_event_id': bits(32), 'segmentation_event_cancel_indicator': True,
                              'segmentation_type': 0x10}
            descs.append(descriptors.SegmentationDescriptor(**seg_fields))
        if rng.random() < 0.3:
            descs.append(descriptors.AvailDescriptor(provider_avail_id=bits(32)))
        fields['descriptors'] = descs
        rp = {'scte35_fields': {k: (v if not hasattr(v, 'toJSON') else str(v)) for k, v in fields.items()}}
        res.evaluations += 1
        try:
            sig = BinarySignal(**fields)
            data = sig.encode()
        except Exception as err:
            res.violation('scte35-encode-raises', f'{kind}: {type(err).__name__}: {err}', rp)
            continue
        res.count('scte35.roundtrips')
        res.keys.add(f'scte35-roundtrip|{kind}|d{len(descs)}')
        # independent reading
        try:
            ref = scte35_ref.parse(data)
        except Exception as err:
            res.violation('scte35-encoded-signal-not-parseable', f'{kind}: {type(err).__name__}: {err} ({data.hex()})', rp)
            continue
        if not ref['crc_valid']:
            res.violation('scte35-crc-invalid', f'{kind}: encoded signal has a bad CRC ({data.hex()})', rp)
        for name in ('pts_adjustment', 'cw_index', 'tier'):
            if ref[name] != fields[name]:
                res.violation('scte35-field-not-preserved', f'{kind}: {name} {ref[name]} != {fields[name]}', rp)
        if seg_fields is not None:
            res.count('scte35.segmentation_descriptors')
            try:
                tag, body = ref['descriptors'][0]
                sd = scte35_ref.parse_segmentation(body)
                if tag != 2:
                    raise ValueError(f'tag {tag}')
            except Exception as err:
                res.violation('scte35-segmentation-descriptor-not-parseable', f'{type(err).__name__}: {err} ({data.hex()})', rp)
                sd = None
            if sd is not None and not sd['cancel']:
                want = {'segmentation_event_id': seg_fields['segmentation_event_id'],
                        'segmentation_type_id': seg_fields['segmentation_type'],
                        'segment_num': seg_fields.get('segment_num', 0),
                        'segments_expected': seg_fields.get('segments_expected', 0)}
                if seg_fields.get('segmentation_duration') is not None:
                    want['segmentation_duration'] = seg_fields['segmentation_duration']
                if 'segmentation_upid' in seg_fields:
                    want['segmentation_upid'] = seg_fields['segmentation_upid'].data
                    want['segmentation_upid_type'] = seg_fields['segmentation_upid_type']
                    res.count('scte35.upids')
                    if not want['segmentation_upid']:
                        res.count('scte35.empty_upids')
                else:
                    want['segmentation_upid'] = b''
                if seg_fields.get('delivery_not_restricted_flag') is False:
                    for name in ('web_delivery_allowed_flag', 'no_regional_blackout_flag', 'archive_allowed_flag'):
                        want[name] = int(seg_fields[name])
                    want['device_restrictions'] = seg_fields['device_restrictions']
                if 'sub_segment_num' in seg_fields:
                    want['sub_segment_num'] = seg_fields['sub_segment_num']
                    want['sub_segments_expected'] = seg_fields['sub_segments_expected']
                for name, val in want.items():
                    if sd.get(name) != val:
                        res.violation(f'scte35-segmentation-field-not-preserved-{name}',
                                      f'{kind}: {name} is {sd.get(name)!r} in the encoded signal, constructed with {val!r} '
                                      f'({data.hex()})', rp)
            elif sd is not None and sd['segmentation_event_id'] != seg_fields['segmentation_event_id']:
                res.violation('scte35-segmentation-field-not-preserved-segmentation_event_id', f'{kind} (cancel)', rp)
        if si is not None:
            rsi = ref['splice_insert']
            if rsi['splice_event_id'] != si['splice_event_id']:
                res.violation('scte35-field-not-preserved', f'{kind}: splice_event_id', rp)
            if kind == 'insert':
                if rsi.get('pts') != (si['splice_time'] or {}).get('pts') and si['splice_time'] is not None:
                    res.violation('scte35-field-not-preserved', f'{kind}: pts {rsi.get("pts")} != {si["splice_time"]}', rp)
            if kind != 'insert-cancel':
                if si['break_duration'] is not None and (
                        rsi.get('break_duration') != si['break_duration']['duration'] or
                        bool(rsi.get('auto_return')) != si['break_duration']['auto_return']):
                    res.violation('scte35-field-not-preserved', f'{kind}: break_duration', rp)
                for name in ('unique_program_id', 'avail_num', 'avails_expected'):
                    if rsi[name] != si[name]:
                        res.violation('scte35-field-not-preserved', f'{kind}: {name}', rp)
        # the repository's own parser: parse(encode(s)) == s  (compare re-encoded bytes + fields)
        try:
            parsed = BinarySignal.parse(BufferedReader(None, data=data), size=len(data))
            if not parsed.get('crc_valid'):
                res.violation('scte35-own-parser-rejects-own-crc', f'{kind}', rp)
            again = BinarySignal(**{k: v for k, v in parsed.items()
                                    if k in BinarySignal.DEFAULT_VALUES or k in ('descriptors',)}).encode()
            if again != data:
                res.violation('scte35-parse-encode-not-identity',
                              f'{kind}: encode(parse(x)) differs: {data.hex()} -> {again.hex()}', rp)
        except Exception as err:
            res.violation('scte35-own-parser-raises', f'{kind}: {type(err).__name__}: {err} ({data.hex()})', rp)
        if i >= 1500 and i % 500 == 0 and ctx.out_of_time():
            break


def run_shard(ctx: ShardCtx) -> ShardResult:
    from dlv.appenv import AppEnv
    from dlv.reach import Reach
    res = ShardResult()
    env = AppEnv()
    try:
        env.add_fixture_stream('bbb', only={'bbb_v7', 'bbb_a1'})
        env.add_fixture_stream('tears', only={'tears_v1', 'tears_a1'})
        from dlv import synth
        synth.add_synthetic_streams(env, ctx, res)
        reach = Reach([
            ('dashlive.server.events.repeating_event_base', 'RepeatingEventBase.create_emsg_boxes'),
            ('dashlive.server.events.repeating_event_base', 'RepeatingEventBase.create_manifest_context'),
            ('dashlive.server.events.scte35_events', 'Scte35Events.create_binary_signal'),
            ('dashlive.mpeg.section_table', 'MpegSectionTable.encode'),
            ('dashlive.mpeg.section_table', 'MpegSectionTable.parse'),
        ])
        checker = EventChecker(res)
        total = ctx.budget_s
        ctx.budget_s = total * 0.2
        run_scte35_roundtrip(ctx, res)
        ctx.budget_s = total
        if ctx.replay and 'run' in ctx.replay.get('replay', {}):
            res.notes.append('replay re-runs the seeded workload')
        run_http(ctx, res, env, checker)
        reach.report(res)
    finally:
        env.close()
    return res
