"""C04 -- ISO-BMFF parse/encode round-trips byte-exactly.

Generated workload: trees of every box class registered with dashlive.mpeg.mp4 are written by
an independent from-the-specification writer (dlv.oracles.boxwriter) with legal field values
including boundary widths, versions, flag-gated optional fields, empty lists, 64-bit box sizes
and uuid headers; the complex codec-configuration boxes (sample entries, avcC, hvcC, esds,
dec3, dac3) come from the stsd boxes of every fixture file, with their fixed-width numeric
fields mutated in place and their leaf children replaced by generated ones (grafting with
ancestor sizes recomputed by the harness).

Monitors on the real parser/encoder:
  rt    Mp4Atom.load(data).encode() == data, for mode r/rw x lazy_load on/off x reader type
  lazy  eager tree and fully-touched lazy tree expose identical toJSON() field values
  json  fromJSON(toJSON()) of every top-level atom encodes to the bytes it was parsed from
  edit  random edit programs (assign a field, insert, append, remove a child) on rw trees; the
        independent walker then requires exact nesting (every size field equals the encoded
        length, children exactly fill their parent), untouched boxes byte-identical, assigned
        values readable by an independent field reader, and the total length accounted for.
"""
from __future__ import annotations

import io
import json
import struct

from dlv.core import REPO, ShardCtx, ShardResult
from dlv.oracles import boxwriter as bw
from dlv.oracles import isobmff

PROPERTY = 'C04'
LEVEL = 'exploration'
RULE = ('one case = one generated file (init: ftyp+moov tree; media: styp/sidx/emsg/moof[/mdat]; '
        'single: one leaf box class alone; graft: fixture stsd with mutated numeric fields and '
        'replaced leaf children) checked in all of mode {r,rw} x lazy_load {off,on} x reader '
        '{dashlive BufferedReader, io.BufferedReader}; plus edit programs of length 1..4. '
        'distinct_nontrivial counts distinct (box type, version, flags, mode, lazy) tuples that '
        'were compared byte-for-byte after a real re-encode (not served from a cached buffer) '
        'plus distinct (edit op, box, lazy) tuples whose output the walker accepted.')
ASSUMPTIONS = [
    'well-formed = what ISO/IEC 14496-12/-30, 23001-7 and 23009-1 allow for the box version/flags; '
    'creation times kept below 2^33 s (datetime range), strings valid UTF-8 and null-terminated',
    'fragments that have an mdat peer carry data offsets that are consistent with the layout '
    '(the encoder is specified to re-derive them); fragments without one carry arbitrary offsets',
    'oracle: dlv.oracles.boxwriter (writer) and dlv.oracles.isobmff (walker); no dashlive code',
]
REQUIRED_COUNTERS = ['rt.identical', 'rt.reencoded', 'lazy.compared', 'lazy.out_of_order', 'json.identical', 'edit.walked',
                     'graft.cases']
EXHAUSTIVE = {'quick': False, 'thorough': False}
# every box class registered with the parser must have been re-encoded and compared at least once
REGISTERED = ['UUID(a2394f525a9b4f14a2446c427c648df4)', 'ac-3', 'avc1', 'avc3', 'avcC', 'btrt', 'dac3', 'dec3',
              'ec-3', 'emsg', 'enca', 'encv', 'esds', 'frma', 'ftyp', 'hdlr', 'hev1', 'hvc1', 'hvcC', 'mdhd',
              'mdia', 'mehd', 'mfhd', 'mime', 'minf', 'moof', 'moov', 'mp4a', 'mvex', 'mvhd', 'pasp', 'pssh',
              'saio', 'saiz', 'schi', 'schm', 'senc', 'sidx', 'sinf', 'stbl', 'stpp', 'stsd', 'styp', 'tenc',
              'tfdt', 'tfhd', 'tkhd', 'traf', 'trak', 'trex', 'trun', 'udta', 'vttC', 'wvtt']
REQUIRED_COUNTERS += [f'box.{n}' for n in REGISTERED]

FIX = REPO / 'tests' / 'fixtures'


def shards(tier: str) -> int:
    return 16


# ------------------------------------------------------------------ byte surgery helpers

def patch_sizes(buf: bytearray, box: isobmff.Box, delta: int) -> None:
    """add delta to the size field of box and every ancestor (32 bit sizes only)"""
    b = box
    while b is not None and b.type != b'root':
        size = struct.unpack_from('>I', buf, b.start)[0]
        if size == 1:
            struct.pack_into('>Q', buf, b.start + 8, struct.unpack_from('>Q', buf, b.start + 8)[0] + delta)
        else:
            struct.pack_into('>I', buf, b.start, size + delta)
        b = b.parent


def replace_box(data: bytes, box: isobmff.Box, new: bytes) -> bytes:
    buf = bytearray(data)
    if box.parent is not None:
        patch_sizes(buf, box.parent, len(new) - box.size)
    return bytes(buf[:box.start]) + new + bytes(buf[box.end:])


def fixture_stsds() -> list[tuple[str, bytes]]:
    out = []
    for p in sorted(FIX.rglob('*.mp4')):
        buf = p.read_bytes()[:65536]
        pos = buf.find(b'stsd')
        if pos < 4:
            continue
        size = struct.unpack_from('>I', buf, pos - 4)[0]
        if pos - 4 + size > len(buf):
            continue
        out.append((p.name, buf[pos - 4:pos - 4 + size]))
    return out


def esds_offsets(buf: bytes, b: isobmff.Box) -> list[tuple[int, int]]:
    """(offset, width) of bufferSizeDB/maxBitrate/avgBitrate in an esds box"""
    p = b.body + 4

    def desc(p):
        tag = buf[p]
        p += 1
        ln = 0
        for _ in range(4):
            c = buf[p]
            p += 1
            ln = (ln << 7) | (c & 0x7F)
            if not c & 0x80:
                break
        return tag, ln, p
    try:
        tag, ln, p = desc(p)
        if tag != 3:
            return []
        flags = buf[p + 2]
        p += 3
        if flags & 0x80:
            p += 2
        if flags & 0x40:
            p += 1 + buf[p]
        if flags & 0x20:
            p += 2
        tag, ln, p = desc(p)
        if tag != 4 or ln < 13:
            return []
        return [(p + 2, 3), (p + 5, 4), (p + 9, 4)]
    except IndexError:
        return []


MASKS = {'avc_chroma_format': 0x03, 'avc_luma_depth': 0x07, 'avc_chroma_depth': 0x07}


def avcc_ext_offset(buf: bytes, b: isobmff.Box) -> int | None:
    """offset of the chroma_format byte of an AVCDecoderConfigurationRecord with the High-profile
    extension (ISO/IEC 14496-15 5.3.3.1.2), or None"""
    p = b.body
    if b.size < 15 or buf[p + 1] not in (100, 110, 122, 244, 44, 83, 86, 118, 128, 138, 139, 134, 135):
        return None
    p += 5
    n = buf[p] & 0x1F
    p += 1
    for _ in range(n):
        p += 2 + struct.unpack_from('>H', buf, p)[0]
    n = buf[p]
    p += 1
    for _ in range(n):
        p += 2 + struct.unpack_from('>H', buf, p)[0]
    if p + 4 > b.end:
        return None
    return p


def mutate_stsd(rng, stsd: bytes) -> tuple[bytes, list[str]]:
    """in-place mutation of fixed-width numeric fields + replacement of simple leaf children"""
    what = []
    root = isobmff.parse_file(stsd)
    buf = bytearray(stsd)
    spots: list[tuple[int, int, str]] = []
    for b in root.walk():
        t = b.type
        if t in isobmff.VISUAL:
            spots += [(b.body + 6, 2, 'dri'), (b.body + 24, 2, 'width'), (b.body + 26, 2, 'height'),
                      (b.body + 28, 4, 'hres'), (b.body + 32, 4, 'vres'), (b.body + 40, 2, 'frame_count'),
                      (b.body + 74, 2, 'depth')]
        elif t in isobmff.AUDIO:
            spots += [(b.body + 6, 2, 'dri'), (b.body + 16, 2, 'channels'), (b.body + 18, 2, 'samplesize'),
                      (b.body + 24, 2, 'samplerate_hi')]
        elif t in (b'stpp', b'wvtt'):
            spots += [(b.body + 6, 2, 'dri')]
        elif t == b'avcC':
            spots += [(b.body + 3, 1, 'avc_level')]
            ext = avcc_ext_offset(stsd, b)
            if ext is not None:
                spots += [(ext, 1, 'avc_chroma_format'), (ext + 1, 1, 'avc_luma_depth'), (ext + 2, 1, 'avc_chroma_depth')] * 3
        elif t == b'hvcC':
            spots += [(b.body + 12, 1, 'hevc_level'), (b.body + 19, 2, 'avgFrameRate')]
        elif t == b'esds':
            spots += [(o, w, 'esds_rate') for o, w in esds_offsets(stsd, b)]
        elif t == b'btrt':
            spots += [(b.body, 4, 'btrt0'), (b.body + 4, 4, 'btrt1'), (b.body + 8, 4, 'btrt2')]
        elif t == b'pasp':
            spots += [(b.body, 4, 'pasp0'), (b.body + 4, 4, 'pasp1')]
        elif t == b'tenc':
            spots += [(b.body + 8 + i, 1, 'kid') for i in range(0, 16, 5)]
    rng.shuffle(spots)
    for off, width, name in spots[:rng.randrange(0, 5)]:
        val = bw.bits(rng, 8 * width)
        if name in ('dri',):
            val = rng.choice([1, 2, 0xFFFF])
        if name in MASKS:           # bit fields that share their byte with reserved '1' bits
            val = (buf[off] & ~MASKS[name] & 0xFF) | (val & MASKS[name])
        buf[off:off + width] = val.to_bytes(width, 'big')
        what.append(name)
    data = bytes(buf)
    # graft: replace simple leaf children by freshly generated ones
    for _ in range(rng.randrange(0, 3)):
        root = isobmff.parse_file(data)
        leaves = [b for b in root.walk() if b.type in (b'pasp', b'btrt', b'frma', b'schm', b'mime', b'vttC', b'esds')]
        if not leaves:
            break
        b = rng.choice(leaves)
        gen = bw.LEAF_GENERATORS[b.name()]
        data = replace_box(data, b, gen(rng))
        what.append('graft:' + b.name())
    if rng.random() < 0.15:
        root = isobmff.parse_file(data)
        for b in root.walk():
            if b.type == b'hev1':
                data = data[:b.start + 4] + b'hvc1' + data[b.start + 8:]
                what.append('retype:hvc1')
            elif b.type == b'avc3' and rng.random() < 0.5:
                data = data[:b.start + 4] + b'avc1' + data[b.start + 8:]
                what.append('retype:avc1')
    return data, what


# ------------------------------------------------------------------ file generation

def gen_moov(rng, stsds) -> tuple[bytes, int | None, list[str]]:
    name, stsd = rng.choice(stsds)
    stsd, what = mutate_stsd(rng, stsd)
    what.insert(0, name)
    iv = None
    root = isobmff.parse_file(stsd)
    for b in root.walk():
        if b.type == b'tenc':
            if rng.random() < 0.5:
                new, iv, _ = bw.tenc(rng)
                stsd = replace_box(stsd, b, new)
                what.append('graft:tenc')
            else:
                iv = stsd[b.body + 7]
            break
    stbl = bw.container(b'stbl', [stsd] + ([bw.unknown(rng)] if rng.random() < 0.2 else []))
    minf = bw.container(b'minf', [stbl])
    mdia = bw.container(b'mdia', [bw.mdhd(rng), bw.hdlr(rng), minf])
    trak = bw.container(b'trak', [bw.tkhd(rng), mdia])
    mvex_children = ([bw.mehd(rng)] if rng.random() < 0.6 else []) + [bw.trex(rng) for _ in range(rng.choice([1, 1, 2]))]
    children = [bw.mvhd(rng), trak, bw.container(b'mvex', mvex_children)]
    if rng.random() < 0.15:
        # a second track (same sample description): repeated sibling types
        mdia2 = bw.container(b'mdia', [bw.mdhd(rng), bw.hdlr(rng), minf])
        children.insert(2, bw.container(b'trak', [bw.tkhd(rng), mdia2]))
        what = what + ['two-trak']
    for _ in range(rng.choice([0, 0, 1, 2])):
        children.insert(rng.randrange(1, len(children) + 1), bw.pssh(rng))
    if rng.random() < 0.2:
        # user data: unknown children, among them QuickTime style types that start with the (c) sign
        kids = [bw.unknown(rng)]
        if rng.random() < 0.4:
            kids.append(bw.box(rng.choice([b'\xa9nam', b'\xa9too', b'\xa9day']), bw.blob(rng, rng.choice([0, 4, 20]))))
        children.append(bw.container(b'udta', kids))
    if rng.random() < 0.2:
        children.insert(rng.randrange(1, len(children) + 1), bw.unknown(rng))
    return bw.container(b'moov', children, large=rng.random() < 0.05), iv, what


def fix_saio(moof: bytearray, start: int, n: int) -> None:
    """the single saio offset addresses the first senc sample, relative to the fragment's base
    (ISO/IEC 23001-7 section 7: offsets are relative as for trun data_offset)"""
    root = isobmff.parse_file(bytes(moof))
    m = root.children[0]
    senc = m.find(b'traf', b'senc')
    saio = m.find(b'traf', b'saio')
    tf = m.find(b'traf', b'tfhd')
    _, flags, p = isobmff.fullbox(moof, tf)
    base = struct.unpack_from('>Q', moof, p + 4)[0] if flags & 1 else start
    sver, sflags, sp = isobmff.fullbox(moof, saio)
    if sflags & 1:
        sp += 8
    first = start + senc.body + 8 - base
    if n == 0 or first < 0:
        return          # not derivable / not representable: keep the generated value
    struct.pack_into('>Q' if sver else '>I', moof, sp + 4, first)


def gen_moof(rng, iv: int, with_mdat: bool, start: int) -> tuple[bytes, dict]:
    """returns moof (+ mdat) bytes placed at absolute offset `start` of the file"""
    info: dict = {'layout': None}
    n = rng.choice([0, 1, 2, 5, 30])
    tfhd, _ = bw.tfhd(rng, track_id=rng.choice([1, 2, bw.bits(rng, 32)]), allow_base=True)
    kids = [tfhd]
    if rng.random() < 0.8:
        kids.append(bw.tfdt(rng))
    cenc = rng.random() < 0.5
    if cenc:
        kids += bw.cenc_group(rng, n, iv, piff=rng.random() < 0.3)
    kids.append(bw.trun(rng, count=n))
    traf = bw.container(b'traf', kids)
    mchildren = [bw.mfhd(rng), traf]
    if not with_mdat and not cenc and rng.random() < 0.2:
        # a second track fragment (no media data follows: nothing to address)
        tfhd2, _ = bw.tfhd(rng, track_id=3, allow_base=False)
        mchildren.append(bw.container(b'traf', [tfhd2, bw.trun(rng, count=rng.choice([0, 1, 3]))]))
        info['two_traf'] = True
    if rng.random() < 0.15:
        mchildren.append(bw.pssh(rng))
    moof = bytearray(bw.container(b'moof', mchildren))
    if not with_mdat:
        info['layout'] = 'alone'
        if cenc:
            tf = isobmff.parse_file(bytes(moof)).children[0].find(b'traf', b'tfhd')
            _, flags, p = isobmff.fullbox(moof, tf)
            if flags & 1:       # the auxiliary data must be addressable from the base
                struct.pack_into('>Q', moof, p + 4, rng.choice([0, start]))
            fix_saio(moof, start, n)
            info['cenc'] = True
        return bytes(moof), info
    mdat_payload = bw.blob(rng, rng.choice([0, 1, 64]))
    root = isobmff.parse_file(bytes(moof))
    m = root.children[0]
    tf = m.find(b'traf', b'tfhd')
    tr = m.find(b'traf', b'trun')
    ver, flags, p = isobmff.fullbox(moof, tf)
    mdat_large = rng.random() < 0.2         # a 64-bit size header although the box is small: legal
    mdat_data = start + len(moof) + (16 if mdat_large else 8)
    if flags & 1:
        # auxiliary information inside the moof cannot be addressed (unsigned saio offsets)
        # from a base behind it
        base = start if cenc else rng.choice([start, mdat_data])
        struct.pack_into('>Q', moof, p + 4, base)
        info['layout'] = 'explicit-base-moof' if base == start else 'explicit-base-mdat'
    else:
        base = start
        info['layout'] = 'base-is-moof' if flags & 0x20000 else 'implicit-base'
    tver, tflags, tp = isobmff.fullbox(moof, tr)
    want = mdat_data - base
    if tflags & 1:
        struct.pack_into('>i', moof, tp + 4, want)
    elif want != 0:
        # without a data_offset field the run starts at the base: only legal when base is the mdat payload
        # -> give the box a data_offset field
        new = bytearray(moof[tr.start:tr.end])
        struct.pack_into('>I', new, 8, (tver << 24) | tflags | 1)
        new[16:16] = struct.pack('>i', want + 4)
        mdat_data += 4
        struct.pack_into('>I', new, 0, len(new))
        moof = bytearray(replace_box(bytes(moof), tr, bytes(new)))
        info['layout'] += '+added-data-offset'
    if cenc:
        fix_saio(moof, start, n)
        info['cenc'] = True
    return bytes(moof) + bw.box(b'mdat', mdat_payload, large=mdat_large), info


def gen_case(rng, stsds) -> dict:
    kind = rng.choice(['init', 'media', 'media', 'single', 'single', 'combined', 'graft'])
    iv = rng.choice([8, 16])
    parts: list[bytes] = []
    what: list[str] = []
    if kind == 'single':
        name = rng.choice(sorted(bw.LEAF_GENERATORS) + ['unknown', 'unknown_uuid', 'unknown_large', 'tenc'])
        if name in ('trun',):
            name = 'mfhd'
        if name == 'unknown':
            parts.append(bw.unknown(rng))
        elif name == 'unknown_large':
            parts.append(bw.unknown(rng, large=True))
        elif name == 'unknown_uuid':
            parts.append(bw.unknown_uuid(rng))
        elif name == 'tenc':
            parts.append(bw.tenc(rng)[0])
        else:
            parts.append(bw.LEAF_GENERATORS[name](rng))
        what.append(name)
    elif kind == 'graft':
        name, stsd = rng.choice(stsds)
        stsd, what = mutate_stsd(rng, stsd)
        what.insert(0, name)
        parts.append(stsd)
    if kind in ('init', 'combined'):
        parts.append(bw.ftyp(rng))
        if rng.random() < 0.2:
            parts.append(bw.unknown(rng))
        moov, miv, what = gen_moov(rng, stsds)
        if miv in (8, 16):
            iv = miv
        elif miv is not None:
            kind = 'init'       # tenc with another IV size: fragments would not be parseable
        parts.append(moov)
    if kind in ('media', 'combined'):
        if rng.random() < 0.7:
            parts.append(bw.ftyp(rng, b'styp'))
        for _ in range(rng.choice([0, 0, 1, 2])):
            parts.append(bw.sidx(rng))
        for _ in range(rng.choice([0, 0, 1, 2])):
            parts.append(bw.emsg(rng))
        with_mdat = rng.random() < 0.6
        start = sum(len(p) for p in parts)
        frag, info = gen_moof(rng, iv, with_mdat, start)
        parts.append(frag)
        what.append(info['layout'])
        if info.get('cenc'):
            what.append('cenc')
        if info.get('two_traf'):
            what.append('two-traf')
        if with_mdat and rng.random() < 0.3:
            parts.append(bw.unknown(rng))
        if with_mdat and rng.random() < 0.25:
            # a second fragment in the same file / chunked segment (its own mdat follows its own moof)
            start2 = sum(len(p) for p in parts)
            frag2, info2 = gen_moof(rng, iv, True, start2)
            parts.append(frag2)
            what.append('second-fragment:' + info2['layout'])
    return {'kind': kind, 'iv': iv, 'data': b''.join(parts), 'what': what}


# ------------------------------------------------------------------ monitors

def box_key(buf: bytes, b: isobmff.Box) -> str:
    name = b.name() if b.type != b'uuid' else 'uuid:' + b.usertype.hex()[:8]
    if b.type in FULLBOXES and b.size >= b.header + 4:
        v, f, _ = isobmff.fullbox(buf, b)
        return f'{name}:v{v}:f{f:x}'
    return name + (':large' if b.header in (16, 32) else '')


FULLBOXES = {b'mvhd', b'tkhd', b'mdhd', b'hdlr', b'mehd', b'trex', b'mfhd', b'tfhd', b'tfdt', b'trun', b'saiz',
             b'saio', b'senc', b'tenc', b'pssh', b'sidx', b'emsg', b'schm', b'mime', b'esds', b'stsd'}


def readers(mp4mod, data: bytes, which: int):
    if which == 0:
        from dashlive.utils.buffered_reader import BufferedReader
        return BufferedReader(None, data=data)
    return io.BufferedReader(io.BytesIO(data))


def touch_all(atom) -> None:
    for ch in list(atom.children or []):
        touch_all(ch)


def touch_out_of_order(atom, rng) -> None:
    """forces every lazily loaded box, later siblings before earlier ones (reverse or shuffled order)"""
    kids = list(atom.children or [])
    if rng.random() < 0.5:
        kids.reverse()
    else:
        rng.shuffle(kids)
    for ch in kids:
        # lazy_load() parses this one box (toJSON would walk, and so load, its whole subtree in
        # document order); its children are placeholders again
        real = ch.lazy_load() if hasattr(ch, 'lazy_load') else ch
        touch_out_of_order(real, rng)


def first_diff(a: bytes, b: bytes) -> int:
    n = min(len(a), len(b))
    for i in range(n):
        if a[i] != b[i]:
            return i
    return n


def where(data: bytes, off: int) -> str:
    """deepest box of the input that contains offset off"""
    try:
        root = isobmff.parse_file(data)
    except isobmff.BoxError:
        return '?'
    best = 'root'
    for b in root.walk():
        if b.type != b'root' and b.start <= off < b.end:
            best = box_key(data, b)
    return best


def mech_box(key: str) -> str:
    return key.split(':')[0]


def load(mp4, data, mode, lazy, iv, reader=0, strict=False):
    opts = mp4.Options(mode=mode, lazy_load=lazy, iv_size=iv, strict=strict)
    return mp4.Mp4Atom.load(readers(mp4, data, reader), options=opts, use_wrapper=True)


def monitor_roundtrip(res: ShardResult, mp4, case: dict, replay: dict) -> bool:
    data = case['data']
    ok = True
    root = isobmff.parse_file(data)
    keys = [box_key(data, b) for b in root.walk() if b.type != b'root']
    for mode in ('r', 'rw'):
        for lazy in (False, True):
            reader = (len(data) + (mode == 'rw') + lazy) % 2
            label = f'{mode}/{"lazy" if lazy else "eager"}'
            try:
                wrap = load(mp4, data, mode, lazy, case['iv'], reader)
            except Exception as err:
                res.violation(f'parse-raises-{type(err).__name__}-{mech_box(keys[-1] if len(keys) == 1 else case["kind"])}',
                              f'[{label}] Mp4Atom.load raised {err!r} on a well-formed {case["kind"]} file '
                              f'({case["what"]})', replay)
                return False
            try:
                out = wrap.encode()
            except Exception as err:
                res.violation(f'encode-raises-{type(err).__name__}',
                              f'[{label}] encode() raised {err!r} on a freshly parsed {case["kind"]} file '
                              f'({case["what"]})', replay, mode=label)
                ok = False
                continue
            res.count('rt.compared')
            if out != data:
                off = first_diff(out, data)
                w = where(data, off)
                res.violation(f'roundtrip-bytes-differ-{mech_box(w)}',
                              f'[{label}] parse->encode differs at offset {off} (in {w}); input {len(data)} bytes, '
                              f'output {len(out)} bytes; in={data[off:off + 12].hex()} out={out[off:off + 12].hex()}',
                              replay, mode=label, box=w)
                ok = False
            else:
                res.count('rt.identical')
                if mode == 'r' and not lazy:
                    res.count('rt.reencoded')
                    for k in keys:
                        res.keys.add(f'rt:{k}')
                    for b in root.walk():
                        if b.type == b'uuid':
                            res.count(f'box.UUID({b.usertype.hex()})' if b.usertype == bw.PIFF_UUID else 'box.uuid-unknown')
                        elif b.type != b'root':
                            res.count(f'box.{b.name()}')
                res.bucket('rt.mode', label)
    return ok


def jsonable(obj):
    return json.loads(json.dumps(obj, default=lambda o: repr(o), sort_keys=True))


def monitor_lazy(res: ShardResult, mp4, case: dict, replay: dict) -> None:
    data = case['data']
    try:
        eager = load(mp4, data, 'r', False, case['iv'])
        lazy = load(mp4, data, 'r', True, case['iv'])
        je = jsonable(eager.toJSON())
        jl = jsonable(lazy.toJSON())
    except Exception as err:
        res.violation(f'lazy-field-access-raises-{type(err).__name__}',
                      f'toJSON of eager/lazy tree raised {err!r} ({case["kind"]}, {case["what"]})', replay)
        return
    res.count('lazy.compared')
    if je != jl:
        path = diff_path(je, jl)
        res.violation(f'lazy-eager-fields-differ-{path.split("/")[-1]}',
                      f'eager and lazy trees expose different field values at {path}', replay)
    else:
        res.count('lazy.identical')
    # touching every lazy box must not change what the tree encodes to
    try:
        touch_all(lazy)
        out = lazy.encode()
        if out != data:
            off = first_diff(out, data)
            w = where(data, off)
            res.violation(f'touched-lazy-roundtrip-differs-{mech_box(w)}',
                          f'lazy tree, every box touched, encodes differently at offset {off} (in {w})', replay)
        else:
            res.count('lazy.touched_identical')
    except Exception as err:
        res.violation(f'touched-lazy-encode-raises-{type(err).__name__}',
                      f'encode of a fully touched lazy tree raised {err!r}', replay)
    # the same with the boxes forced out of document order: what is loaded first must not matter
    import random
    import zlib
    try:
        lazy2 = load(mp4, data, 'r', True, case['iv'])
        touch_out_of_order(lazy2, random.Random(zlib.crc32(data)))
        jl2 = jsonable(lazy2.toJSON())
        out = lazy2.encode()
    except Exception as err:
        res.violation(f'out-of-order-lazy-access-raises-{type(err).__name__}',
                      f'forcing lazy boxes out of document order raised {err!r} ({case["kind"]}, {case["what"]})', replay)
        return
    res.count('lazy.out_of_order')
    if jl2 != je:
        path = diff_path(je, jl2)
        res.violation(f'out-of-order-lazy-fields-differ-{path.split("/")[-1]}',
                      f'lazy tree forced out of document order exposes other field values than the eager tree at {path}', replay)
    elif out != data:
        off = first_diff(out, data)
        w = where(data, off)
        res.violation(f'out-of-order-lazy-roundtrip-differs-{mech_box(w)}',
                      f'lazy tree forced out of document order encodes differently at offset {off} (in {w})', replay)


def diff_path(a, b, path='') -> str:
    if type(a) is not type(b):
        return path or '/'
    if isinstance(a, dict):
        for k in sorted(set(a) | set(b)):
            if k not in a or k not in b:
                return f'{path}/{k}'
            if a[k] != b[k]:
                return diff_path(a[k], b[k], f'{path}/{a.get("atom_type", "")}/{k}' if 'atom_type' in a else f'{path}/{k}')
    if isinstance(a, list):
        if len(a) != len(b):
            return path + '/len'
        for i, (x, y) in enumerate(zip(a, b)):
            if x != y:
                return diff_path(x, y, path)
    return path


def monitor_json(res: ShardResult, mp4, case: dict, replay: dict) -> None:
    data = case['data']
    try:
        wrap = load(mp4, data, 'r', False, case['iv'])
    except Exception:
        return
    root = isobmff.parse_file(data)
    for atom, wb in zip(wrap.children, root.children):
        src = data[wb.start:wb.end]
        key = box_key(data, wb)
        try:
            js = atom.toJSON()
            clone = mp4.Mp4Atom.fromJSON(js, options=mp4.Options(iv_size=case['iv']))
            # encoded at the position it was parsed from: offsets that the JSON form carries
            # as absolute values (tfhd.base_data_offset) stay meaningful
            dest = io.BytesIO()
            dest.write(data[:wb.start])
            clone.encode(dest)
            out = dest.getvalue()[wb.start:]
        except Exception as err:
            res.violation(f'json-roundtrip-raises-{type(err).__name__}-{mech_box(key)}',
                          f'fromJSON(toJSON()).encode() of top-level {key} raised {err!r}', replay)
            continue
        res.count('json.compared')
        if wb.type == b'moof' and b'mdat' in [c.type for c in root.children]:
            # encoded stand-alone the fragment has no mdat peer and its offsets are kept
            pass
        if out != src:
            off = first_diff(out, src)
            w = where(data, wb.start + off)
            res.violation(f'json-roundtrip-bytes-differ-{mech_box(w)}',
                          f'fromJSON(toJSON()) of top-level {key} encodes differently at offset {off} (in {w}): '
                          f'in={src[off:off + 12].hex()} out={out[off:off + 12].hex()}', replay, box=w)
        else:
            res.count('json.identical')
            for b in wb.walk():
                res.keys.add(f'json:{box_key(data, b)}')


# ------------------------------------------------------------------ edit programs

def nav(wrap, path):
    cur = wrap
    for p in path:
        cur = getattr(cur, p.replace('-', '_'))
    return cur


def gen_edits(rng, data: bytes) -> list[dict]:
    root = isobmff.parse_file(data)
    have = {b.type for b in root.walk()}
    cands: list[dict] = []
    if b'moof' in have:
        m = [c for c in root.children if c.type == b'moof'][0]
        traf = m.find(b'traf')
        tk = [c.type for c in traf.children]
        cands.append({'op': 'assign', 'path': ['moof', 'mfhd'], 'field': 'sequence_number', 'value': bw.bits(rng, 32)})
        if b'tfdt' in tk:
            cands.append({'op': 'assign', 'path': ['moof', 'traf', 'tfdt'], 'field': 'base_media_decode_time',
                          'value': rng.choice([0, 1, (1 << 32) - 1, 1 << 32, (1 << 64) - 1, bw.bits(rng, 40)])})
            cands.append({'op': 'remove', 'path': ['moof', 'traf'], 'child': 'tfdt'})
        else:
            cands.append({'op': 'insert', 'path': ['moof', 'traf'], 'after': 'tfhd', 'box': 'tfdt',
                          'version': rng.randrange(2), 'value': bw.bits(rng, 32)})
        cands.append({'op': 'assign', 'path': ['moof', 'traf', 'tfhd'], 'field': 'track_id', 'value': bw.bits(rng, 32)})
        cands.append({'op': 'append', 'path': ['moof'], 'box': 'pssh', 'version': rng.randrange(2),
                      'n': rng.choice([0, 1, 3]), 'dlen': rng.choice([0, 5, 70])})
        if b'saiz' in tk and b'senc' in tk and b'uuid' not in tk:
            cands.append({'op': 'insert-piff', 'path': ['moof', 'traf']})
        if b'pssh' in [c.type for c in m.children]:
            cands.append({'op': 'remove', 'path': ['moof'], 'child': 'pssh'})
    if b'moov' in have:
        mv = [c for c in root.children if c.type == b'moov'][0]
        mk = [c.type for c in mv.children]
        cands.append({'op': 'assign', 'path': ['moov', 'mvhd'], 'field': 'timescale', 'value': bw.bits(rng, 32)})
        cands.append({'op': 'assign', 'path': ['moov', 'mvhd'], 'field': 'next_track_id', 'value': bw.bits(rng, 32)})
        cands.append({'op': 'assign', 'path': ['moov', 'trak', 'mdia', 'mdhd'], 'field': 'timescale', 'value': bw.bits(rng, 32)})
        cands.append({'op': 'assign', 'path': ['moov', 'trak', 'tkhd'], 'field': 'track_id', 'value': bw.bits(rng, 32)})
        cands.append({'op': 'assign', 'path': ['moov', 'mvex', 'trex'], 'field': 'default_sample_duration', 'value': bw.bits(rng, 32)})
        cands.append({'op': rng.choice(['insert', 'append']), 'path': ['moov'], 'box': 'pssh', 'after': 'mvhd',
                      'version': rng.randrange(2), 'n': rng.choice([0, 1, 3]), 'dlen': rng.choice([0, 5, 70])})
        if b'pssh' in mk:
            cands.append({'op': 'remove', 'path': ['moov'], 'child': 'pssh'})
        mvex = mv.find(b'mvex')
        if mvex is not None and mvex.find(b'mehd') is not None:
            cands.append({'op': 'remove', 'path': ['moov', 'mvex'], 'child': 'mehd'})
            cands.append({'op': 'assign', 'path': ['moov', 'mvex', 'mehd'], 'field': 'fragment_duration', 'value': bw.bits(rng, 32)})
        cands.append({'op': 'remove', 'path': ['moov'], 'child': 'mvex'})
    rng.shuffle(cands)
    out: list[dict] = []
    removed: set[tuple] = set()
    for c in cands:
        if len(out) >= rng.choice([1, 1, 2, 3, 4]):
            break
        p = tuple(c['path'])
        # never address something an earlier step removed
        if any(p[:len(r)] == r for r in removed):
            continue
        # "remove the first pssh" and "insert a pssh" under one parent: which box goes depends
        # on the order of the steps; keep the programs unambiguous
        if c.get('child') == 'pssh' and any(o.get('box') == 'pssh' and tuple(o['path']) == p for o in out):
            continue
        if c.get('box') == 'pssh' and any(o.get('child') == 'pssh' and tuple(o['path']) == p for o in out):
            continue
        if c['op'] == 'remove':
            tgt = p + (c['child'],)
            if any(tuple(o['path'])[:len(tgt)] == tgt for o in out):
                continue
            removed.add(tgt)
        out.append(c)
    return out


def make_box(mp4, e: dict, rng_bytes) -> tuple[object, bytes]:
    """-> (library box to insert, the bytes the independent writer gives for the same box)"""
    from dashlive.utils.binary import HexBinary, Binary
    if e['box'] == 'tfdt':
        atom = mp4.TrackFragmentDecodeTimeBox(version=e['version'], flags=0, base_media_decode_time=e['value'])
        want = bw.full(b'tfdt', e['version'], 0, struct.pack('>Q' if e['version'] else '>I', e['value']))
        return atom, want
    sysid = bytes(range(16))
    kids = [bytes([i] * 16) for i in range(e['n'])] if e['version'] else []
    pdata = bytes(range(e['dlen']))
    atom = mp4.ContentProtectionSpecificBox(
        atom_type='pssh', version=e['version'], flags=0,
        system_id=HexBinary(sysid.hex(), _type='hex'),
        key_ids=[HexBinary(k.hex(), _type='hex') for k in kids],
        data=Binary(pdata) if pdata else None)
    body = sysid
    if e['version']:
        body += struct.pack('>I', len(kids)) + b''.join(kids)
    want = bw.full(b'pssh', e['version'], 0, body + struct.pack('>I', len(pdata)) + pdata)
    return atom, want


INDEP_READ = {
    ('mfhd', 'sequence_number'): lambda buf, b: isobmff.read_mfhd(buf, b),
    ('tfdt', 'base_media_decode_time'): lambda buf, b: isobmff.read_tfdt(buf, b)[1],
    ('tfhd', 'track_id'): lambda buf, b: isobmff.read_tfhd(buf, b)['track_id'],
    ('mdhd', 'timescale'): lambda buf, b: isobmff.read_mdhd(buf, b)['timescale'],
    ('tkhd', 'track_id'): lambda buf, b: isobmff.read_tkhd(buf, b)['track_id'],
    ('trex', 'default_sample_duration'): lambda buf, b: isobmff.read_trex(buf, b)['default_sample_duration'],
    ('mvhd', 'timescale'): lambda buf, b: struct.unpack_from('>I', buf, b.body + 4 + (16 if buf[b.body] else 8))[0],
    ('mvhd', 'next_track_id'): lambda buf, b: struct.unpack_from('>I', buf, b.end - 4)[0],
    ('mehd', 'fragment_duration'): lambda buf, b: struct.unpack_from('>Q' if buf[b.body] else '>I', buf, b.body + 4)[0],
}

# fields of boxes that the encoder is specified to re-derive from the layout
POSITIONAL = {b'trun', b'saio', b'tfhd'}


def positional_diff(t: bytes, was: bytes, got: bytes) -> str | None:
    def rd(raw):
        b = isobmff.parse_file(raw).children[0]
        if t == b'trun':
            d = isobmff.read_trun(raw, b)
            d.pop('data_offset', None)
            d['flags'] &= ~1
        elif t == b'saio':
            d = isobmff.read_saio(raw, b)
            d['count'] = len(d.pop('offsets'))
            d['head'] = raw[8:12] + (raw[12:20] if raw[11] & 1 else b'')
        else:
            d = isobmff.read_tfhd(raw, b)
            d.pop('base_data_offset', None)
        return d
    try:
        a, b = rd(was), rd(got)
    except (isobmff.BoxError, struct.error) as err:
        return f'not readable: {err}'
    if a != b:
        keys = [k for k in a if a.get(k) != b.get(k)]
        return f'fields {keys} differ'
    return None


def flat(root: isobmff.Box, buf: bytes) -> list[tuple[str, bytes, bytes]]:
    """(path, type, bytes) of every leaf box in document order"""
    out = []

    def rec(b, path):
        for c in b.children:
            p = f'{path}/{c.name()}'
            if c.children or c.type in isobmff.CONTAINERS:
                rec(c, p)
            else:
                out.append((p, c.type, buf[c.start:c.end]))
    rec(root, '')
    return out


def explicit_base_with_cenc(data: bytes) -> bool:
    root = isobmff.parse_file(data)
    for m in root.children:
        if m.type == b'moof':
            tf = m.find(b'traf', b'tfhd')
            if tf is not None and m.find(b'traf', b'saio') is not None and m.find(b'traf', b'senc') is not None:
                if isobmff.fullbox(data, tf)[1] & 1:
                    return True         # (any fragment of the file, not only the first)
    return False


def monitor_edit(res: ShardResult, mp4, case: dict, edits: list[dict], lazy: bool, replay: dict) -> None:
    data = case['data']
    label = 'lazy' if lazy else 'eager'
    try:
        wrap = load(mp4, data, 'rw', lazy, case['iv'])
    except Exception:
        return
    expect_delta = 0
    removed_paths: list[str] = []
    inserted: list[bytes] = []
    assigned: list[tuple[list[str], str, int]] = []
    before = isobmff.parse_file(data)
    for e in edits:
        try:
            parent = nav(wrap, e['path'])
            if e['op'] == 'assign':
                setattr(parent, e['field'], e['value'])
                assigned.append((e['path'], e['field'], e['value']))
            elif e['op'] == 'remove':
                idx = parent.index(e['child'])
                parent.remove_child(idx)
                removed_paths.append('/' + '/'.join(e['path'] + [e['child']]))
            elif e['op'] in ('insert', 'append'):
                atom, want = make_box(mp4, e, None)
                if e['op'] == 'insert':
                    parent.insert_child(parent.index(e['after']) + 1, atom)
                else:
                    parent.append_child(atom)
                inserted.append(want)
            elif e['op'] == 'insert-piff':
                senc = parent.senc
                piff = mp4.PiffSampleEncryptionBox.clone_from_senc(senc)
                parent.insert_child(parent.index('saiz'), piff)
                inserted.append(b'piff')
        except Exception as err:
            res.violation(f'edit-{e["op"]}-raises-{type(err).__name__}',
                          f'[{label}] edit {e} raised {err!r}', replay, edit=e)
            return
    try:
        out = wrap.encode()
    except Exception as err:
        mech = f'edit-encode-raises-{type(err).__name__}'
        if isinstance(err, struct.error) and explicit_base_with_cenc(data) and any(e['op'] == 'remove' for e in edits):
            # the fragment moved towards the start of the file while tfhd.base_data_offset is an
            # absolute position behind it: the (unsigned) saio offset is not representable
            mech = 'edit-moves-cenc-fragment-before-its-explicit-base-data-offset'
        res.violation(mech, f'[{label}] encode after edits {edits} raised {err!r}', replay)
        return
    res.count('edit.encoded')
    ops = '+'.join(sorted({e['op'] for e in edits}))
    # (1) exact nesting: every size equals the encoded length, children fill their parent
    try:
        after = isobmff.parse_file(out)
    except isobmff.BoxError as err:
        res.violation(f'edit-{ops}-breaks-nesting',
                      f'[{label}] after edits {edits} the walker rejects the output: {err}', replay)
        return
    res.count('edit.walked')
    fa = flat(after, out)
    fb = flat(before, data)
    # (2) removed boxes absent, everything not addressed by an edit is byte-identical and in order
    touched = {'/' + '/'.join(p) for p, _, _ in assigned}
    exp2 = list(fb)
    for r in removed_paths:
        leaf = [i for i, x in enumerate(exp2) if x[0] == r]
        if leaf:
            del exp2[leaf[0]]           # only the first box of that name is removed
        else:
            exp2 = [x for x in exp2 if not x[0].startswith(r + '/')]
    have = [(p, t, r) for p, t, r in fa]
    # remove inserted boxes from `have` by exact bytes (they are checked separately)
    for want in inserted:
        if want == b'piff':
            idx = [i for i, x in enumerate(have) if x[1] == b'uuid']
            if not idx:
                res.violation('edit-insert-piff-box-missing', f'[{label}] inserted PIFF box absent', replay)
                return
            senc = [x for x in have if x[1] == b'senc']
            if senc and have[idx[0]][2][28:] != senc[0][2][12:]:
                res.violation('edit-insert-piff-differs-from-senc',
                              f'[{label}] PIFF box payload differs from the senc box it was cloned from', replay)
            del have[idx[0]]
            continue
        idx = [i for i, x in enumerate(have) if x[2] == want]
        if not idx:
            res.violation(f'edit-inserted-box-bytes-wrong-{want[4:8].decode()}',
                          f'[{label}] inserted {want[4:8].decode()} box not found byte-exact '
                          f'(expected {want.hex()[:80]}) after edits {edits}', replay)
            return
        del have[idx[0]]
        expect_delta += len(want)
    if [(p, t) for p, t, _ in have] != [(p, t) for p, t, _ in exp2]:
        res.violation(f'edit-{ops}-box-sequence-wrong',
                      f'[{label}] after edits {edits}: boxes {[p for p, _, _ in have]} expected '
                      f'{[p for p, _, _ in exp2]}', replay)
        return
    for (p, t, got), (_, _, was) in zip(have, exp2):
        if got == was:
            continue
        if p in touched:
            continue
        if t in POSITIONAL:
            # the encoder re-derives data offsets from the layout: everything else must be intact
            res.count('edit.positional_rewritten')
            diff = positional_diff(t, was, got)
            if diff:
                res.violation(f'edit-{ops}-corrupts-untouched-{t.decode()}',
                              f'[{label}] after edits {edits} the box {p} changed in more than its data '
                              f'offsets: {diff}', replay)
                return
            continue
        res.violation(f'edit-{ops}-corrupts-untouched-{t.decode("latin-1")}',
                      f'[{label}] after edits {edits} the untouched box {p} changed: '
                      f'{was.hex()[:64]} -> {got.hex()[:64]}', replay)
        return
    # (3) assigned values are what an independent reader sees
    for path, field, value in assigned:
        b = after
        for p in path:
            b = b.find(p.encode())
        rd = INDEP_READ.get((path[-1], field))
        if rd is None or b is None:
            continue
        got = rd(out, b)
        res.count('edit.assign_read')
        if got != value:
            res.violation(f'edit-assign-not-encoded-{path[-1]}.{field}',
                          f'[{label}] {".".join(path)}.{field} = {value} but the encoded box reads {got}', replay)
            return
    res.count('edit.held')
    for e in edits:
        res.keys.add(f'edit:{e["op"]}:{e.get("box") or e.get("child") or e["path"][-1] + "." + e.get("field", "")}:{label}')


# ------------------------------------------------------------------ driver

def run_case(res: ShardResult, mp4, case: dict, edits_eager, edits_lazy) -> None:
    replay = {'data': case['data'].hex(), 'iv': case['iv'], 'kind': case['kind'], 'what': case['what'],
              'edits_eager': edits_eager, 'edits_lazy': edits_lazy}
    res.evaluations += 1
    res.bucket('case.kind', case['kind'])
    if case['kind'] == 'graft' or (case['kind'] in ('init', 'combined') and any(w.startswith(('graft', 'retype')) or w in ('width',) for w in case['what'])):
        res.count('graft.cases')
    if not monitor_roundtrip(res, mp4, case, replay):
        # edits on a tree that does not even reproduce itself would only repeat that finding
        res.count('edit.skipped_base_differs')
        edits_eager = edits_lazy = None
    monitor_lazy(res, mp4, case, replay)
    monitor_json(res, mp4, case, replay)
    if edits_eager:
        monitor_edit(res, mp4, case, edits_eager, False, replay)
    if edits_lazy:
        monitor_edit(res, mp4, case, edits_lazy, True, replay)


def run_shard(ctx: ShardCtx) -> ShardResult:
    import logging
    from dashlive.mpeg import mp4
    logging.getLogger('mp4').setLevel(logging.CRITICAL)
    res = ShardResult()
    if ctx.replay:
        r = ctx.replay.get('replay', {})
        case = {'data': bytes.fromhex(r['data']), 'iv': r['iv'], 'kind': r['kind'], 'what': r['what']}
        run_case(res, mp4, case, r.get('edits_eager'), r.get('edits_lazy'))
        return res
    rng = ctx.rng
    missing = sorted(set(mp4.fourcc.BOXES) - set(REGISTERED))
    if missing:
        res.inconclusive.append(f'box classes registered with the parser that this check has no generator for: {missing}')
    stsds = fixture_stsds()
    res.count('fixtures.stsd', len(stsds))
    n = ctx.scale(1500, 40000)
    for i in range(n):
        case = gen_case(rng, stsds)
        try:
            isobmff.parse_file(case['data'])
        except isobmff.BoxError as err:
            res.inconclusive.append(f'generator produced a file its own walker rejects: {err}')
            break
        e1 = gen_edits(rng, case['data'])
        e2 = gen_edits(rng, case['data'])
        run_case(res, mp4, case, e1, e2)
        if len(res.samples) < 4:
            res.samples.append({'kind': case['kind'], 'what': case['what'], 'bytes': len(case['data']),
                                'edits': e1})
        if i % 32 == 0 and ctx.out_of_time():
            res.notes.append(f'stopped after {i + 1} of {n} cases (time budget)')
            break
    return res
