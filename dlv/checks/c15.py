"""C15 -- only authorised roles can change persistent state.

Conservation monitor at the HTTP boundary: a raw-SQL dump of every table (Token excluded) and
a content-hashed listing of the blob directory are taken before and after *each* request.
(1) every mutating operation, in the exact shape the authorised role sends it, is replayed by
every lesser role with the tokens that role can itself harvest; (2) the whole routing table
(discovered at run time) x methods x roles is swept with existing ids and harvested tokens;
(3) CSRF token histories (issue / use / reuse / cross-service / cross-cookie / tamper) are
checked for accepted-at-most-once.
"""
from __future__ import annotations

import datetime
import re

from dlv.core import ShardCtx, ShardResult

PROPERTY = 'C15'
LEVEL = 'exploration'
RULE = ('(1) catalogue of mutating operations (add/edit/delete stream in both encodings, stream defaults, upload, index, edit '
        'media, delete media x2, add/edit/delete key x2, add/edit/delete multi-period stream, add/edit/delete user) x roles '
        '{anonymous, guest-JWT, user, media, admin}; (2) every rule of app.url_map x {GET,HEAD,POST,PUT,DELETE} x lesser roles x '
        '{query, form, JSON} parameter encodings with existing and non-existing ids and harvested CSRF tokens/JWTs '
        '(route x method x role enumerated completely); (3) random CSRF token histories of length <= 5. '
        'Non-trivial = the request was sent and the state compared; distinct = (operation or route, method, role, encoding).')
ASSUMPTIONS = [
    'documented roles (docs/users.md): media group (or admin) for streams, media files, keys, multi-period streams; admin for other users; a user for their own account',
    'state = every table except Token, read with raw SQL on the database file, + recursive blob directory listing with content hashes; a role may change its own User row',
    'flask_login stand-in: at least as permissive as the real library for authenticated sessions; anonymous users are the repository\'s own AnonymousUser',
    'werkzeug test client as HTTP boundary; remember-me cookies are out of scope',
]
REQUIRED_COUNTERS = ['replay.requests', 'sweep.requests', 'control.changed', 'csrf.steps', 'csrf.accepted',
                     'reach.check', 'reach.generate_token', 'reach.needs_login_response']
EXHAUSTIVE = {'quick': False, 'thorough': False}

UTC = datetime.timezone.utc
ROLES = ['anon', 'guest', 'user', 'media', 'admin']
RANK = {'anon': 0, 'guest': 0, 'user': 1, 'media': 2, 'admin': 3}
MEDIA_TABLES = {'Stream', 'media_file', 'Blob', 'key', 'mediafile_keys', 'media_file_error', 'mediafile_error',
                'mp_stream', 'period', 'adaptation_set', 'content_type'}


def shards(tier: str) -> int:
    return 16


class World:
    """One app with a small store and one session per role."""

    def __init__(self, ctx: ShardCtx) -> None:
        from dlv.appenv import AppEnv, FIXTURES
        from dlv.mps import add_mps_db
        from dlv.session import UserSession
        from dlv.state import StateObserver
        self.env = env = AppEnv()
        f = FIXTURES / 'bbb'
        self.spk = env.add_stream('bbb', title='Big Buck Bunny', copy=True,
                                  files={n: f / f'{n}.mp4' for n in ('bbb_v7', 'bbb_a1', 'bbb_v7_enc', 'bbb_t1')})
        t = FIXTURES / 'tears'
        self.spk2 = env.add_stream('tears', title='Tears', copy=True,
                                   files={n: t / f'{n}.mp4' for n in ('tears_v1', 'tears_a1')})
        add_mps_db(env, 'c15mps', [{'pid': 'p1', 'stream': 'bbb', 'start': 4, 'duration': 16,
                                    'tracks': [('video', 1, 'main'), ('audio', 2, 'main')]}])
        with env.app.app_context():
            m = env.models
            m.db.session.add(m.User(username='victim', email='victim@dashlive.unit.test',
                                    password=m.User.hash_password('v1ct1m'), groups_mask=m.Group.USER,
                                    must_change=False))
            m.db.session.commit()
            self.users = {u.username: u.pk for u in m.User.all()}
            self.mfids = {mf.name: mf.pk for mf in m.MediaFile.all()}
            self.kpks = [k.pk for k in m.Key.all()]
            self.kids = [k.hkid for k in m.Key.all()]
            mps = m.MultiPeriodStream.get(name='c15mps')
            self.mps_pk = mps.pk
            self.period_pk = mps.periods[0].pk
        self.obs = StateObserver(env)
        self.payload = (f / 'bbb_a1.mp4').read_bytes()[:120000]
        self.small_upload = (f / 'bbb_t1.mp4').read_bytes()
        self.sessions: dict = {}
        self.UserSession = UserSession
        self.login_all()
        self.obs.snapshot('base')

    def login_all(self) -> None:
        from dlv.mgmt import Harvest
        env = self.env
        creds = {'anon': (None, None), 'guest': (None, None), 'user': env.USER, 'media': env.MEDIA, 'admin': env.ADMIN}
        self.sessions = {}
        self.harvest = {}
        for role, (u, p) in creds.items():
            s = self.UserSession(env, u, p)
            self.sessions[role] = s
            self.harvest[role] = Harvest(s, self.spk, 'c15mps')
        self.role_user_pk = {'anon': None, 'guest': self.users.get('_AnonymousUser_'),
                             'user': self.users['user'], 'media': self.users['media'], 'admin': self.users['admin']}

    def reset(self) -> None:
        self.obs.restore('base')
        self.login_all()

    def close(self) -> None:
        self.env.close()


def catalogue(w: World, rng) -> list[dict]:
    from dlv import mgmt as G
    tag = rng.randrange(10**6)
    ops = [
        G.op_add_stream(f'new{tag}', f'New stream {tag}'),
        G.op_add_stream_form(f'frm{tag}', f'Form stream {tag}'),
        G.op_edit_stream(w.spk, f'Edited {tag}', 'bbb', timing_ref='bbb_v7'),
        G.op_delete_stream(w.spk2),
        G.op_delete_stream_form(w.spk2),
        G.op_stream_defaults(w.spk, {'depth': '77', 'leeway': '9', 'abr': '0'}),
        G.op_upload(w.spk, f'up{tag}.mp4', w.small_upload),
        G.op_index(w.mfids['bbb_a1']),
        G.op_edit_media(w.spk, w.mfids['bbb_t1'], 9, 'fra'),
        G.op_delete_media(w.spk, w.mfids['bbb_a1']),
        G.op_delete_media_form(w.spk, w.mfids['bbb_t1']),
        G.op_add_key('%032x' % rng.getrandbits(128), '%032x' % rng.getrandbits(128)),
        G.op_add_key_form('%032x' % rng.getrandbits(128), '%032x' % rng.getrandbits(128)),
        G.op_edit_key(w.kpks[0], '%032x' % rng.getrandbits(128)),
        G.op_delete_key(w.kpks[0]),
        G.op_delete_key_form(w.kpks[0]),
        G.op_add_mps(f'mps{tag}', f'MPS {tag}', [{'pid': 'p1', 'stream_pk': w.spk, 'start': 'PT4S', 'duration': 'PT16S',
                                                   'tracks': [1, 2]}]),
        G.op_edit_mps('c15mps', G.mps_body('c15mps', f'Retitled {tag}', [
            {'pid': 'p1', 'pk': w.period_pk, 'stream_pk': w.spk, 'start': 'PT8S', 'duration': 'PT12S',
             'tracks': [1, 2]}], pk=w.mps_pk)),
        G.op_delete_mps('c15mps'),
        G.op_add_user(f'u{tag}', f'u{tag}@x.test', 'pw123456'),
        G.op_edit_user(w.users['victim'], 'victim', f'changed{tag}@x.test', 'newpw123'),
        G.op_edit_user(w.users['user'], 'user', f'self{tag}@x.test'),
        # the page sends the account's pk in the body as well as in the URL; a body that names the
        # requester while the URL names somebody else must not redirect the authorisation test
        dict(G.op_edit_user(w.users['victim'], 'victim', f'pk{tag}@x.test', 'newpw456'), name='edit-user-with-pk',
             fields={**G.op_edit_user(w.users['victim'], 'victim', f'pk{tag}@x.test', 'newpw456')['fields'],
                     'pk': w.users['victim']}),
        dict(G.op_edit_user(w.users['victim'], 'victim', f'own{tag}@x.test', 'newpw789'), name='edit-user-body-names-requester',
             fields={**G.op_edit_user(w.users['victim'], 'victim', f'own{tag}@x.test', 'newpw789')['fields'],
                     'pk': '$SELF_PK'}),
        dict(G.op_edit_user(w.users['admin'], 'admin', f'adm{tag}@x.test', 'newpw000', groups=('user', 'media', 'admin')),
             name='edit-admin-body-names-requester',
             fields={**G.op_edit_user(w.users['admin'], 'admin', f'adm{tag}@x.test', 'newpw000',
                                      groups=('user', 'media', 'admin'))['fields'], 'pk': '$SELF_PK'}),
        G.op_delete_user(w.users['victim']),
    ]
    return ops


def allowed(op: dict, role: str, w: World) -> bool:
    need = op['needs']
    if need == 'media':
        return role in ('media', 'admin')
    if need == 'admin':
        return role == 'admin'
    if need == 'admin-or-self':
        return role == 'admin' or (w.role_user_pk.get(role) is not None and w.role_user_pk[role] == op.get('target_user'))
    return False


def illegal_change(diff: dict, role: str, w: World) -> dict | None:
    """What of the observed change this role was not entitled to make (None when nothing)."""
    bad = {}
    own = w.role_user_pk.get(role)
    for name, d in diff['tables'].items():
        if name == 'User':
            cols = d['columns']
            pki = cols.index('pk') if 'pk' in cols else 0
            rows = [r for r in d['removed'] + d['added'] if r[pki] != own]
            if role == 'admin':
                continue
            if rows or d['n_added'] != d['n_removed']:
                bad[name] = d
        elif RANK[role] < RANK['media']:
            bad[name] = d
    if diff['blobs'] and RANK[role] < RANK['media']:
        bad['blob-store'] = dict(list(diff['blobs'].items())[:5])
    return bad or None


def summarise(bad: dict) -> str:
    parts = []
    for name, d in bad.items():
        if name == 'blob-store':
            parts.append(f'blob store: {list(d)[:3]}')
        else:
            parts.append(f'{name}: +{d["n_added"]}/-{d["n_removed"]} rows e.g. {str((d["added"] or d["removed"])[:1])[:160]}')
    return '; '.join(parts)


def run_replay(ctx: ShardCtx, res: ShardResult, w: World) -> None:
    from dlv.mgmt import execute
    rng = ctx.rng
    rounds = ctx.scale(1, 12)
    for rnd in range(rounds):
        ops = catalogue(w, rng)
        for oi, op in enumerate(ops):
            for role in ROLES:
                if (oi * len(ROLES) + ROLES.index(role) + rnd) % ctx.nshards != ctx.shard:
                    continue
                if '$SELF_PK' in (op.get('fields') or {}).values():
                    own = w.role_user_pk.get(role)
                    if own is None:
                        continue        # anonymous / guest have no account of their own to name
                    op = dict(op, fields={k: (own if v == '$SELF_PK' else v) for k, v in op['fields'].items()})
                before = w.obs.observe()
                try:
                    r = execute(w.sessions[role], w.harvest[role], op)
                    status = r.status_code
                except Exception as err:
                    status = f'client error {err!r}'
                after = w.obs.observe()
                diff = w.obs.diff(before, after)
                res.count('replay.requests')
                res.case(f'replay|{op["name"]}|{role}')
                changed = bool(diff['tables'] or diff['blobs'])
                ok_role = allowed(op, role, w)
                if ok_role:
                    if changed:
                        res.count('control.changed')
                        res.bucket('control', op['name'])
                    else:
                        res.bucket('control_unchanged', f'{op["name"]}/{role}/{status}')
                else:
                    bad = illegal_change(diff, role, w)
                    if bad:
                        res.violation(f'unauthorised-state-change-{op["name"]}-as-{role}',
                                      f'{op["method"]} {op["url"]} as {role} -> {status}; changed {summarise(bad)}',
                                      {'op': {k: v for k, v in op.items() if k != 'file'}, 'role': role})
                if changed:
                    w.reset()
                if len(res.samples) < 5 and not ok_role:
                    res.samples.append({'op': op['name'], 'role': role, 'status': status, 'state_changed': changed})
        if ctx.out_of_time():
            break


def fill_rule(rule, w: World, missing: bool) -> str | None:
    vals = {'spk': w.spk, 'mfid': w.mfids['bbb_a1'], 'kpk': w.kpks[0], 'upk': w.users['victim'],
            'mps_name': 'c15mps', 'stream': 'bbb', 'filename': 'bbb_a1', 'manifest': 'hand_made.mpd',
            'mode': 'vod', 'ext': 'm4a', 'segment_num': '1', 'segment_time': 0, 'segnum': 1, 'ppk': 1,
            'publish': 1700000000, 'method': 'iso', 'username': 'victim', 'path': 'x'}
    if missing:
        vals.update({'spk': 9999, 'mfid': 9999, 'kpk': 9999, 'upk': 9999, 'mps_name': 'nosuch'})
    try:
        args = {a: vals[a] for a in rule.arguments}
    except KeyError:
        return None
    try:
        with w.env.app.test_request_context('/'):
            import flask
            return flask.url_for(rule.endpoint, **args)
    except Exception:
        return None


def run_sweep(ctx: ShardCtx, res: ShardResult, w: World) -> None:
    """route x method x role, enumerated completely across the shards."""
    env = w.env
    rules = sorted(env.app.url_map.iter_rules(), key=lambda r: r.rule)
    methods = ['GET', 'HEAD', 'POST', 'PUT', 'DELETE']
    encodings = ['query', 'form', 'json']
    idx = 0
    generic = {'title': 'Swept', 'directory': 'swept', 'prefix': 'swept', 'name': 'swept', 'username': 'swept',
               'email': 'swept@x.test', 'password': 'sw3pt', 'confirmPassword': 'sw3pt', 'mustChange': False,
               'adminGroup': True, 'mediaGroup': True, 'hkid': '00' * 16, 'hkey': '11' * 16, 'kid': '22' * 16,
               'key': '33' * 16, 'new_key': '1', 'track_id': '7', 'lang': 'de', 'depth': '5', 'periods': [],
               'marlin_la_url': '', 'playready_la_url': '', 'timing_ref': '', 'kids': [], 'type': 'temporary',
               'ajax': '1'}
    for rule in rules:
        if rule.endpoint == 'static':
            continue
        for missing in (False, True):
            url = fill_rule(rule, w, missing)
            if url is None:
                res.count('sweep.rule_not_filled')
                continue
            for method in methods:
                for role in ('anon', 'guest', 'user', 'media'):
                    for enc in encodings:
                        idx += 1
                        if idx % ctx.nshards != ctx.shard:
                            continue
                        if method in ('GET', 'HEAD') and enc != 'query':
                            continue
                        if missing and enc != 'json':
                            continue
                        s, h = w.sessions[role], w.harvest[role]
                        fields = dict(generic)
                        # a lesser role sends every token it can harvest
                        tok = h.token(ctx.rng.choice(['streams', 'files', 'keys', 'upload']))
                        if tok:
                            fields['csrf_token'] = tok
                        headers = h.bearer() if role != 'anon' else {}
                        before = w.obs.observe()
                        try:
                            if enc == 'json':
                                r = s.request(method, url, json=fields, headers=headers)
                            elif enc == 'form':
                                r = s.request(method, url, data={k: v for k, v in fields.items()
                                                                 if isinstance(v, str)}, headers=headers)
                            else:
                                from urllib.parse import urlencode, unquote
                                q = {k: v for k, v in fields.items() if isinstance(v, str)}
                                if tok:
                                    q['csrf_token'] = unquote(tok)
                                r = s.request(method, url + ('&' if '?' in url else '?') + urlencode(q), headers=headers)
                            status = r.status_code
                        except Exception as err:
                            status = f'client error {type(err).__name__}'
                        after = w.obs.observe()
                        diff = w.obs.diff(before, after)
                        res.count('sweep.requests')
                        res.case(f'sweep|{rule.rule}|{method}|{role}|{enc}|{"missing" if missing else "existing"}')
                        res.bucket('sweep_status', status)
                        bad = illegal_change(diff, role, w)
                        if bad:
                            res.violation(f'unauthorised-state-change-{rule.endpoint}-{method}-as-{role}',
                                          f'{method} {url} ({enc}) as {role} -> {status}; changed {summarise(bad)}',
                                          {'sweep': {'rule': rule.rule, 'method': method, 'role': role, 'enc': enc, 'url': url}})
                        if diff['tables'] or diff['blobs']:
                            w.reset()
        if ctx.out_of_time():
            res.notes.append('route sweep cut short by the time budget')
            res.inconclusive.append('C15 route x method x role sweep did not complete in the budget')
            break


def run_csrf(ctx: ShardCtx, res: ShardResult, w: World) -> None:
    """accepted-at-most-once checker over token histories; acceptance = the stream title changed"""
    from dlv.mgmt import Harvest
    rng = ctx.rng
    n = ctx.scale(12, 400)
    # the modules that stamp and expire Token rows read the virtual clock, so that a history can span the
    # lifetime of a used-token record (20 minutes) and more
    import dashlive.server.requesthandler.csrf as csrf_mod
    import dashlive.server.models.token as token_mod
    saved = (csrf_mod.datetime, token_mod.datetime)
    csrf_mod.datetime, token_mod.datetime = w.env.clock.proxy, w.env.clock.VDateTime
    try:
        _run_csrf(ctx, res, w, rng, n, Harvest)
    finally:
        csrf_mod.datetime, token_mod.datetime = saved


def _run_csrf(ctx, res, w, rng, n, Harvest) -> None:
    for i in range(n):
        w.reset()
        a = w.sessions['media']
        b = w.UserSession(w.env, *w.env.MEDIA)        # second browser of the same user: other csrf cookie
        ha, hb = w.harvest['media'], Harvest(b, w.spk)
        issued: list[dict] = []
        used: set[str] = set()
        history = []
        for step in range(rng.randrange(2, 6)):
            kind = rng.choice(['use', 'reuse', 'reuse-later', 'cross-service', 'cross-cookie', 'tamper', 'use', 'after-logout',
                               'use-without-effect'])
            later = 0
            if kind == 'reuse-later':
                # the same as a reuse, after the record of the first use has expired
                kind, later = 'reuse', rng.choice([21 * 60, 3600, 25 * 3600, 20 * 60 + 1])
                w.env.clock.advance(later)
                res.count('csrf.reuse_after_record_lifetime')
            no_effect = kind == 'use-without-effect'
            if no_effect:
                # a request that passes the token check and then changes nothing (the handler refuses its
                # body): the token has been accepted all the same
                kind = 'use'
            if kind in ('use', 'cross-service', 'cross-cookie', 'tamper', 'after-logout') or not issued:
                service = 'files' if kind == 'cross-service' else 'streams'
                tok = ha.token(service)
                issued.append({'token': tok, 'service': service})
                t = issued[-1]
            else:
                t = rng.choice(issued)
            token = t['token']
            # the server percent-decodes the token it is given: the form it issued (quoted) and the decoded
            # form are two spellings of ONE token, and using either spends both
            from urllib.parse import unquote
            if rng.random() < 0.4:
                token = unquote(token)
            canon = unquote(token)
            sender = a
            # "accepted at most once": a token may be accepted when it was never ACCEPTED before (the server is
            # free to refuse one that was merely presented), for its own service, with its own cookie, unmodified
            expect_ok = kind in ('use', 'reuse') and t['service'] == 'streams' and canon not in used
            if kind == 'cross-cookie':
                sender = b
            if kind == 'tamper':
                j = rng.randrange(len(token))
                mode = rng.choice(['flip', 'truncate', 'case', 'append', 'junk', 'junk', 'unused-bits', 'unused-bits'])
                if mode == 'junk':
                    # characters outside the base64 alphabet, which a lenient decoder skips
                    raw = unquote(token)
                    k = rng.randrange(1, len(raw))
                    token = raw[:k] + rng.choice(['.', '-', ' ', '\n', '!', '_']) + raw[k:]
                elif mode == 'unused-bits':
                    # the last character before the padding carries bits that are not part of the data
                    raw = unquote(token)
                    body = raw.rstrip('=')
                    alphabet = 'ABCDEFGHIJKLMNOPQRSTUVWXYZabcdefghijklmnopqrstuvwxyz0123456789+/'
                    if body and body[-1] in alphabet and len(raw) != len(body):
                        c = alphabet[alphabet.index(body[-1]) ^ 1]
                        token = body[:-1] + c + raw[len(body):]
                    else:
                        token = raw + '='
                elif mode == 'flip':
                    c = token[j]
                    token = token[:j] + ('A' if c != 'A' else 'B') + token[j + 1:]
                elif mode == 'truncate':
                    token = token[:max(1, j)]
                elif mode == 'case':
                    token = token.swapcase()
                else:
                    token = token + 'x'
                if unquote(token) == unquote(t['token']):
                    continue
                canon = unquote(token)
            if kind == 'after-logout':
                a.request('GET', '/logout')
            title = f'csrf-{i}-{step}-{rng.randrange(10**6)}'
            before = w.obs.observe()
            body = {'title': title, 'directory': 'bbb', 'marlin_la_url': '', 'playready_la_url': '',
                    'timing_ref': 'bbb_v7', 'csrf_token': token}
            if no_effect:
                body['timing_ref'] = 'no-such-file'          # refused after the token check
            r = sender.request('POST', f'/stream/{w.spk}?ajax=1', json=body)
            after = w.obs.observe()
            diff = w.obs.diff(before, after)
            changed = 'Stream' in diff['tables']
            # accepted = the request got past the token check: it changed the stream, or it was answered by the
            # handler itself rather than by the CSRF refusal (401)
            accepted = changed or (no_effect and r.status_code != 401)
            if no_effect:
                res.count('csrf.accepted_without_effect' if accepted else 'csrf.no_effect_refused')
            res.count('csrf.steps')
            res.case(f'csrf|{kind}')
            history.append({'step': kind if not later else f'{kind} {later} s later', 'status': r.status_code, 'accepted': accepted})
            if accepted:
                res.count('csrf.accepted')
            if accepted and not expect_ok:
                res.violation(f'csrf-token-accepted-{kind}',
                              f'history {history}: a CSRF token was accepted on step "{kind}"', {'csrf_history': history})
            if kind == 'use' and not accepted and canon not in used:
                res.bucket('csrf_control_not_accepted', r.status_code)
            # a token is spent once it was accepted, in any spelling (a tampered variant is another token)
            if accepted:
                used.add(canon)
            if kind == 'after-logout':
                w.login_all()
                a = w.sessions['media']
                ha = w.harvest['media']
        if ctx.out_of_time():
            break


def run_shard(ctx: ShardCtx) -> ShardResult:
    from dlv.reach import Reach
    res = ShardResult()
    w = World(ctx)
    try:
        reach = Reach([
            ('dashlive.server.requesthandler.decorators', 'needs_login_response'),
            ('dashlive.server.requesthandler.csrf', 'CsrfProtection.check'),
            ('dashlive.server.requesthandler.csrf', 'CsrfProtection.generate_token'),
        ])
        total = ctx.budget_s
        ctx.budget_s = total * 0.45
        run_replay(ctx, res, w)
        ctx.budget_s = total * 0.6
        run_csrf(ctx, res, w)
        ctx.budget_s = total * 1.6      # the sweep must complete: it is the enumeration the property asks for
        run_sweep(ctx, res, w)
        reach.report(res)
    finally:
        w.close()
    return res
