"""C17 -- management histories keep the store consistent and the service up.

Stateful workload: random histories of management operations issued through the real
endpoints by an authorised user.  After *every* step an offline checker runs integrity queries
in raw SQL (SQLite does not enforce the declared foreign keys), compares the blob directory with
the Blob rows, checks deletion ownership on the before/after diff, probes every listed stream
and multi-period stream for 5xx, and reads every uploaded+indexed file back byte for byte.
"""
from __future__ import annotations

import os

import datetime
import json

from dlv.core import ShardCtx, ShardResult

PROPERTY = 'C17'
LEVEL = 'exploration'
RULE = ('histories of 5..40 operations over {add/edit/delete stream (both encodings), stream defaults, upload (fixture '
        'files, duplicate names, same name into another stream), index, edit media (track id, language -> file rewrite), '
        'delete media (both), add/edit/delete key (both), add/edit/delete multi-period stream, set timing reference} with '
        'arguments from existing and non-existing objects; checked after every step. Non-trivial = the step was accepted and '
        'changed the store; distinct = (operation, outcome, store-shape signature: #streams/#files/#mps/has-period-reference).')
ASSUMPTIONS = [
    'integrity is read with raw SQL from the database file and from the blob directory, independent of ORM cascades',
    'a Blob row without a media file, or a blob file without a Blob row, counts as a row/file the deletion should have removed',
    'serve probe: manifests of every listed stream / multi-period stream must answer < 500 (4xx is a clean refusal)',
    'byte-exact read-back through the on-demand route (Range: bytes=0-(size-1)) of files whose indexing succeeded',
    'shims + werkzeug test client as HTTP boundary',
]
REQUIRED_COUNTERS = ['steps', 'steps.changed', 'integrity.checks', 'probe.requests', 'readback.files',
                     'ops.upload', 'ops.delete-stream', 'ops.delete-media', 'ops.add-mps',
                     'reach.add_file', 'reach.parse_media_file']

UTC = datetime.timezone.utc
NOW = datetime.datetime(2024, 8, 8, 8, 8, 8, tzinfo=UTC)


def shards(tier: str) -> int:
    return 16


def q(con, sql, *a):
    return con.execute(sql, a).fetchall()


class Integrity:
    def __init__(self, obs) -> None:
        self.obs = obs

    def check(self) -> list[tuple[str, str]]:
        import sqlite3
        out: list[tuple[str, str]] = []
        con = sqlite3.connect(f'file:{self.obs.db_path}?mode=ro', uri=True, timeout=30)
        try:
            streams = {r[0]: r for r in q(con, 'select pk, directory, title, timing_reference from Stream')}
            blobs = {r[0]: r for r in q(con, 'select pk, filename, size, auto_delete from Blob')}
            files = q(con, 'select pk, name, stream, blob from media_file')
            # 1 media files
            used_blobs = {}
            for pk, name, spk, bpk in files:
                if spk not in streams:
                    out.append(('media-file-without-stream', f'media_file {pk} ({name}) -> stream {spk}'))
                if bpk not in blobs:
                    out.append(('media-file-without-blob-row', f'media_file {pk} ({name}) -> blob {bpk}'))
                used_blobs.setdefault(bpk, []).append(pk)
            for bpk, users in used_blobs.items():
                if len(users) > 1:
                    out.append(('blob-shared-by-media-files', f'blob {bpk} used by media files {users}'))
            for bpk, (pk, filename, size, auto) in blobs.items():
                if bpk not in used_blobs:
                    out.append(('orphan-blob-row', f'Blob {bpk} ({filename}) has no media file'))
            # blob files on disk
            disk = self.obs.blobs()
            expected = {}
            sha1s = {}
            hashes = {r[0]: r[1] for r in q(con, 'select pk, sha1_hash from Blob')}
            for pk, name, spk, bpk in files:
                if spk in streams and bpk in blobs:
                    expected[f'{streams[spk][1]}/{blobs[bpk][1]}'] = blobs[bpk][2]
                    sha1s[f'{streams[spk][1]}/{blobs[bpk][1]}'] = hashes.get(bpk)
            for rel, size in expected.items():
                if rel not in disk:
                    out.append(('media-file-without-blob-file', f'{rel} is missing from the blob store'))
                elif disk[rel][0] >= 0 and disk[rel][0] != size:
                    out.append(('blob-size-differs-from-file', f'{rel}: row says {size}, file has {disk[rel][0]}'))
                elif disk[rel][0] >= 0 and sha1s.get(rel) and sha1s[rel] != disk[rel][1]:
                    # same size, other bytes (e.g. the file of an edited media file overwritten by a refused upload)
                    out.append(('blob-hash-differs-from-file', f'{rel}: row says sha1 {sha1s[rel]}, file has {disk[rel][1]}'))
            for rel in disk:
                if rel not in expected:
                    # a leaked file, not a row: outside the property's statement -> diagnostic only
                    out.append(('note:orphan-blob-file', f'{rel} is in the blob store but no media file owns it'))
            # 3 key links
            keys = {r[0] for r in q(con, 'select pk from Key')}
            fpk = {r[0] for r in files}
            try:
                for mpk, kpk in q(con, 'select media_pk, key_pk from mediafile_keys'):
                    if mpk not in fpk or kpk not in keys:
                        out.append(('dangling-key-link', f'mediafile_keys ({mpk}, {kpk})'))
            except sqlite3.OperationalError:
                cols = [c[1] for c in con.execute('pragma table_info("mediafile_keys")')]
                out.append(('harness-schema-unknown', f'mediafile_keys columns {cols}'))
            for pk, mpk in q(con, 'select pk, media_pk from media_file_error'):
                if mpk not in fpk:
                    out.append(('dangling-media-file-error', f'media_file_error {pk} -> media_file {mpk}'))
            # 4 multi-period
            mps = {r[0] for r in q(con, 'select pk from mp_stream')}
            periods = q(con, 'select pk, pid, parent_pk, stream_pk from period')
            ppk = set()
            for pk, pid, parent, spk in periods:
                ppk.add(pk)
                if parent not in mps:
                    out.append(('period-without-parent', f'period {pk} ({pid}) -> mp_stream {parent}'))
                if spk not in streams:
                    out.append(('period-references-deleted-stream', f'period {pk} ({pid}) -> stream {spk}'))
            cts = {r[0] for r in q(con, 'select pk from content_type')}
            for pk, period_pk, ct in q(con, 'select pk, period_pk, content_type_pk from adaptation_set'):
                if period_pk not in ppk:
                    out.append(('adaptation-set-without-period', f'adaptation_set {pk} -> period {period_pk}'))
                if ct not in cts:
                    out.append(('adaptation-set-without-content-type', f'adaptation_set {pk} -> content_type {ct}'))
            # 5 timing reference
            by_stream = {}
            for pk, name, spk, bpk in files:
                by_stream.setdefault(spk, set()).add(name)
            for spk, (pk, directory, title, tref) in streams.items():
                if tref:
                    try:
                        ref = json.loads(tref)
                    except ValueError:
                        out.append(('timing-reference-not-json', f'stream {spk}'))
                        continue
                    if isinstance(ref, dict) and ref.get('media_name') not in by_stream.get(spk, set()):
                        out.append(('timing-reference-names-missing-file',
                                    f'stream {spk} ({directory}) timing_ref {ref.get("media_name")} '
                                    f'(files: {sorted(by_stream.get(spk, set()))})'))
            # 5b the files of a stream live in <blob folder>/<directory>: that must be a directory of its own
            # inside the blob folder
            import os.path
            for spk, (pk, directory, title, tref) in streams.items():
                norm = os.path.normpath(os.path.join('/blobs', str(directory)))
                if not norm.startswith('/blobs/') or '\0' in str(directory) or os.path.dirname(norm) != '/blobs':
                    out.append(('stream-directory-outside-its-place-in-the-blob-store',
                                f'stream {spk}: directory {directory!r} resolves to {norm!r}'))
            # 6 uniqueness
            for table, col in (('Stream', 'directory'), ('media_file', 'name'), ('Blob', 'filename'), ('Key', 'hkid'),
                               ('mp_stream', 'name')):
                for val, n in q(con, f'select {col}, count(*) from "{table}" group by {col} having count(*) > 1'):
                    out.append(('unique-name-duplicated', f'{table}.{col} = {val!r} x {n}'))
            # one row per key id, whatever spelling a request used, and stored in the canonical spelling every
            # lookup uses (32 lower-case hex digits)
            seen_kid: dict[str, str] = {}
            for (hkid,) in q(con, 'select hkid from "key"'):
                canon = str(hkid).lower().replace('-', '')
                canon = canon[2:] if canon.startswith('0x') else canon
                if canon in seen_kid:
                    out.append(('key-id-stored-twice', f'key rows {seen_kid[canon]!r} and {hkid!r} are one key id'))
                seen_kid[canon] = hkid
                if not (len(str(hkid)) == 32 and all(c in '0123456789abcdef' for c in str(hkid))):
                    out.append(('key-id-not-stored-in-canonical-spelling', f'key row hkid = {hkid!r}'))
            for parent, pid, n in q(con, 'select parent_pk, pid, count(*) from period group by parent_pk, pid having count(*) > 1'):
                out.append(('unique-name-duplicated', f'period ({parent}, {pid}) x {n}'))
        finally:
            con.close()
        return out


class History:
    def __init__(self, ctx: ShardCtx, res: ShardResult) -> None:
        from dlv.appenv import AppEnv, FIXTURES
        from dlv.state import StateObserver
        self.ctx, self.res = ctx, res
        self.env = AppEnv()
        self.env.clock.set(NOW)
        self.obs = StateObserver(self.env)
        self.integrity = Integrity(self.obs)
        fb, ft = FIXTURES / 'bbb', FIXTURES / 'tears'
        self.media_lib = {
            'bbb_t1.mp4': (fb / 'bbb_t1.mp4').read_bytes(), 'bbb_a1.mp4': (fb / 'bbb_a1.mp4').read_bytes(),
            'bbb_v7.mp4': (fb / 'bbb_v7.mp4').read_bytes(), 'bbb_v7_enc.mp4': (fb / 'bbb_v7_enc.mp4').read_bytes(),
            'tears_a1.mp4': (ft / 'tears_a1.mp4').read_bytes(),
            'bbb_a1_enc.mp4': (fb / 'bbb_a1_enc.mp4').read_bytes(),
            'notmp4.mp4': b'this is not an mp4 file' * 40,
            'truncated.mp4': (fb / 'bbb_t1.mp4').read_bytes()[:2000],
            # names of the form an edit of a media file generates for its new blob (<name>_01.mp4)
            'bbb_t1_01.mp4': (fb / 'bbb_t1.mp4').read_bytes(), 'bbb_v7_01.mp4': (fb / 'bbb_v7.mp4').read_bytes(),
        }
        self.obs.snapshot('empty')
        self.uploaded: dict[tuple[str, str], bytes] = {}      # (directory, media name) -> bytes as uploaded

    def close(self) -> None:
        self.env.close()

    # ---------------------------------------------------------------- world view (raw SQL)
    def world(self) -> dict:
        t = self.obs.tables()

        def rows(name):
            r = t.get(name, [()])
            cols = r[0]
            return [dict(zip(cols, x)) for x in r[1:]]
        return {'streams': rows('Stream'), 'files': rows('media_file'), 'keys': rows('key'),
                'mps': rows('mp_stream'), 'periods': rows('period'), 'blobs': rows('Blob')}

    def scripted_prefix(self, rng) -> list:
        """A directed opening that random generation reaches too rarely: two (or three) indexed encrypted
        files that share one key id in one or two streams, optionally a user-supplied key for that id
        first; the random suffix then deletes, replaces and re-indexes around them."""
        from dlv import mgmt as G
        names = rng.sample(['bbb_v7_enc.mp4', 'bbb_a1_enc.mp4', 'bbb_v7.mp4'], rng.choice([2, 3]))
        if rng.random() < 0.3:
            names = ['bbb_v7.mp4', 'bbb_v7_enc.mp4'] + ([] if rng.random() < 0.5 else ['bbb_a1_enc.mp4'])
            if rng.random() < 0.4:
                names = ['bbb_v7.mp4', 'bbb_v7_01.mp4']         # two clear video files of one track
        two_streams = rng.random() < 0.4

        def last_stream(w, k=1):
            return w['streams'][-k] if len(w['streams']) >= k else None

        def upload(fname, k=1):
            def f(w):
                s = last_stream(w, k)
                return G.op_upload(s['pk'], fname, self.media_lib[fname]) if s else None
            return f

        def index_last(w):
            un = [x for x in w['files'] if not x.get('rep')]
            return G.op_index(un[-1]['pk']) if un else None

        out = []
        if rng.random() < 0.3:
            out.append(lambda w: G.op_add_key('1ab45440532c439994dc5c5ad9584bac', '%032x' % rng.getrandbits(128)))
        out.append(lambda w: G.op_add_stream('alpha', 'Scripted alpha'))
        if two_streams:
            out.append(lambda w: G.op_add_stream('beta', 'Scripted beta'))
        for i, fname in enumerate(names):
            out.append(upload(fname, 1 + (i % 2 if two_streams else 0)))
            out.append(index_last)
        # directed continuations (each reached too rarely by the random suffix)
        tail = rng.random()
        if tail < 0.25:
            # delete the key the indexed files are encrypted with, then add an unrelated one
            out.append(lambda w: G.op_delete_key(w['keys'][-1]['pk']) if w['keys'] else None)
            out.append(lambda w: G.op_add_key('%032x' % rng.getrandbits(128), '%032x' % rng.getrandbits(128)))
        elif tail < 0.5:
            # make one file the timing reference and delete it through the URL of the *other* stream
            def set_ref(w):
                fs = [f for f in w['files'] if f.get('rep')]
                if not fs:
                    return None
                f = fs[0]
                s_ = next((x for x in w['streams'] if x['pk'] == f['stream']), None)
                return G.op_edit_stream(s_['pk'], s_['title'], s_['directory'], timing_ref=f['name']) if s_ else None

            def delete_via_other(w):
                refs = [x for x in w['streams'] if x.get('timing_reference')]
                others = [x for x in w['streams'] if not x.get('timing_reference')]
                if not refs:
                    return None
                mine = [f for f in w['files'] if f['stream'] == refs[0]['pk'] and f.get('rep')]
                if not mine:
                    return None
                via = (others or refs)[0]['pk']
                return rng.choice([G.op_delete_media, G.op_delete_media_form])(via, mine[0]['pk'])
            out += [set_ref, delete_via_other]
        elif tail < 0.7:
            # give one (video) file another track id, then describe the stream's tracks in a multi-period stream:
            # a track of the definition may now have no media, or two video files may differ in track id
            def set_ref2(w):
                fs = [f for f in w['files'] if f.get('rep') and f.get('content_type') == 'video'] or [f for f in w['files'] if f.get('rep')]
                if not fs:
                    return None
                f = fs[0]
                s_ = next((x for x in w['streams'] if x['pk'] == f['stream']), None)
                return G.op_edit_stream(s_['pk'], s_['title'], s_['directory'], timing_ref=f['name']) if s_ else None

            def retrack(w):
                fs = [f for f in w['files'] if f.get('rep') and f.get('content_type') == 'video']
                if not fs:
                    return None
                clear = [f for f in fs if not f.get('encrypted')]
                f = rng.choice(clear or fs)
                return G.op_edit_media(f['stream'], f['pk'], rng.choice([2, 3, 7]), 'eng')

            def mps_over(w):
                refs = [x for x in w['streams'] if x.get('timing_reference')]
                if not refs:
                    return None
                return G.op_add_mps('mpsT', 'MPS after a track edit', [
                    {'pid': 'p1', 'stream_pk': refs[0]['pk'], 'start': 'PT0S', 'duration': 'PT16S',
                     'tracks': rng.choice([[1], [1, 2], [1, 2, 3], [2]])}])
            out += [set_ref2, retrack, mps_over] if rng.random() < 0.5 else [set_ref2, mps_over, retrack]
        elif tail < 0.85:
            # edit an indexed file (its media moves to a blob with the generated name <name>_01.mp4), then upload a file
            # that carries exactly that name into the same stream (or the other one), then look at the edited file again
            edited: dict = {}

            def edit_one(w):
                fs = [f for f in w['files'] if f.get('rep')]
                if not fs:
                    return None
                f = edited['f'] = rng.choice(fs)
                return G.op_edit_media(f['stream'], f['pk'], rng.choice([2, 3, 7]), 'eng')

            def upload_generated(w):
                f = edited.get('f')
                if f is None:
                    return None
                spk = f['stream'] if rng.random() < 0.7 or len(w['streams']) < 2 else \
                    rng.choice([x['pk'] for x in w['streams'] if x['pk'] != f['stream']])
                src = f['name'] + '.mp4'
                return G.op_upload(spk, f"{f['name']}_01.mp4", self.media_lib.get(src, self.media_lib['bbb_a1.mp4']))
            out += [edit_one, upload_generated, index_last]
            self.res.count('scripted.upload_of_generated_blob_name')
        return out

    def gen_op(self, rng, w: dict) -> dict:
        from dlv import mgmt as G
        streams, files, keys, mps = w['streams'], w['files'], w['keys'], w['mps']
        tag = rng.randrange(10**5)

        def some_stream(missing_p=0.08):
            if streams and rng.random() > missing_p:
                return rng.choice(streams)
            return {'pk': 9000 + tag % 50, 'directory': 'ghost', 'title': 'ghost'}

        choices = ['add-stream'] * (4 if len(streams) < 3 else 1)
        ready = [x for x in streams if x.get('timing_reference')]
        if streams:
            choices += ['upload'] * 5 + ['edit-stream'] + ['defaults', 'delete-stream', 'delete-stream-form']
        if ready:
            choices += ['add-mps'] * 4
        elif streams:
            choices += ['add-mps']
        if files:
            unindexed = [f for f in files if not f.get('rep')]
            choices += ['index'] * (5 if unindexed else 1)
            choices += ['edit-media', 'delete-media', 'delete-media-form'] + ['set-timing-ref'] * (4 if len(ready) < len(streams) else 1)
        choices += ['add-key', 'add-key-form']
        if keys:
            choices += ['edit-key', 'delete-key', 'delete-key-form']
        if mps:
            choices += ['edit-mps'] * 3 + ['delete-mps']
        kind = rng.choice(choices)
        if kind == 'add-stream':
            d = rng.choice(['alpha', 'beta', 'gamma', 'delta', 'alpha', f's{tag}'])
            if rng.random() < 0.06:
                d = rng.choice(['..', '.', '../up', 'a/b', '/abs', 'x/../../y', ''])     # free text, as the API takes it
            if rng.random() < 0.12 and streams:
                # an existing directory again, with a body the insert will refuse (no title): the stream that
                # holds the directory must survive
                return G.op_add_stream(rng.choice(streams)['directory'], '')
            if rng.random() < 0.5:
                op = G.op_add_stream(d, f'Stream {d} {tag}')
                if rng.random() < 0.2:
                    # more members than the form sends: names of other columns of the stream table
                    extra = rng.choice([
                        {'defaults': 'abc'}, {'defaults': [1, 2]},
                        {'timing_ref': {'media_name': 'ghost', 'media_duration': 9600, 'num_media_segments': 10,
                                        'segment_duration': 960, 'timescale': 240}},
                        {'pk': rng.choice(streams)['pk'] if streams else 1},
                        {'defaults': {'depth': 77}}])
                    op = dict(op, fields={**op['fields'], **extra})
                return op
            return G.op_add_stream_form(d, f'Stream {d} {tag}')
        if kind == 'upload':
            s = some_stream()
            fname = rng.choice(list(self.media_lib))
            return G.op_upload(s['pk'], fname, self.media_lib[fname])
        if kind == 'edit-stream':
            s = some_stream()
            mine = [f for f in files if f['stream'] == s['pk']]
            tref = rng.choice([''] + [f['name'] for f in mine]) if mine else ''
            return G.op_edit_stream(s['pk'], f'Edited {tag}', rng.choice([s['directory'], f'moved{tag}']), timing_ref=tref)
        if kind == 'set-timing-ref':
            indexed = [f for f in files if f.get('rep')]
            f = rng.choice(indexed if indexed and rng.random() < 0.85 else files)
            s = next((x for x in streams if x['pk'] == f['stream']), some_stream())
            return G.op_edit_stream(s['pk'], s['title'], s['directory'], timing_ref=f['name'])
        if kind == 'defaults':
            return G.op_stream_defaults(some_stream()['pk'], {'depth': str(rng.choice([30, 60])), 'abr': rng.choice(['0', '1'])})
        if kind == 'delete-stream':
            return G.op_delete_stream(some_stream()['pk'])
        if kind == 'delete-stream-form':
            return G.op_delete_stream_form(some_stream()['pk'])
        if kind == 'index':
            unindexed = [f for f in files if not f.get('rep')]
            f = rng.choice(unindexed if unindexed and rng.random() < 0.8 else files)
            return G.op_index(f['pk'] if rng.random() > 0.05 else 9999)
        if kind == 'edit-media':
            f = rng.choice(files)
            return G.op_edit_media(f['stream'], f['pk'], rng.choice([1, 2, 3, 7]), rng.choice(['eng', 'fra', 'und', 'deu']))
        if kind in ('delete-media', 'delete-media-form'):
            f = rng.choice(files)
            via = f['stream']
            if len(streams) > 1 and rng.random() < 0.15:
                via = rng.choice([x['pk'] for x in streams if x['pk'] != f['stream']])     # URL names another stream
            return (G.op_delete_media if kind == 'delete-media' else G.op_delete_media_form)(via, f['pk'])
        if kind in ('add-key', 'add-key-form'):
            # a new key id, or the id of a stored key again (must be refused), in any of the spellings the
            # key-id parser accepts: lower/upper-case hex, 0x prefix, GUID dashes, base64
            kid = '%032x' % rng.getrandbits(128)
            if keys and rng.random() < 0.35:
                kid = rng.choice(keys)['hkid'].lower().replace('-', '').removeprefix('0x')
                if len(kid) != 32:
                    kid = '%032x' % rng.getrandbits(128)
            r = rng.random()
            if r < 0.15:
                kid = kid.upper()
            elif r < 0.22:
                kid = '0x' + kid
            elif r < 0.29:
                kid = f'{kid[:8]}-{kid[8:12]}-{kid[12:16]}-{kid[16:20]}-{kid[20:]}'
            elif r < 0.34 and kind == 'add-key':
                import base64
                kid = base64.b64encode(bytes.fromhex(kid)).decode()
            if kind == 'add-key':
                return G.op_add_key(kid, rng.choice([None, '%032x' % rng.getrandbits(128)]))
            return G.op_add_key_form(kid, '%032x' % rng.getrandbits(128))
        if kind == 'edit-key':
            return G.op_edit_key(rng.choice(keys)['pk'], '%032x' % rng.getrandbits(128))
        if kind == 'delete-key':
            return G.op_delete_key(rng.choice(keys)['pk'])
        if kind == 'delete-key-form':
            return G.op_delete_key_form(rng.choice(keys)['pk'])
        if kind == 'add-mps':
            periods = []
            for i in range(rng.randrange(1, 3)):
                s = rng.choice(ready) if ready and rng.random() < 0.9 else some_stream(0.03)
                periods.append({'pid': f'p{i + 1}', 'stream_pk': s['pk'], 'start': rng.choice(['PT0S', 'PT4S', 'PT8S']),
                                'duration': rng.choice(['PT8S', 'PT16S', 'PT20S']), 'tracks': rng.choice([[1], [1, 2], [1, 2, 4]])})
            name = rng.choice(['mpsA', 'mpsB', f'mps{tag}'])
            if rng.random() < 0.06:
                periods = []            # a multi-period stream without any period
            return G.op_add_mps(name, f'MPS {name}', periods)
        if kind == 'edit-mps':
            m = rng.choice(mps)
            mine = [p for p in w['periods'] if p['parent_pk'] == m['pk']]
            periods = []
            for i, p in enumerate(mine):
                periods.append({'pid': p['pid'], 'pk': p['pk'], 'stream_pk': p['stream_pk'] if rng.random() > 0.2 else some_stream()['pk'],
                                'start': rng.choice(['PT0S', 'PT4S']), 'duration': rng.choice(['PT8S', 'PT12S']),
                                'tracks': rng.choice([[1], [1, 2]])})
            if rng.random() < 0.3 and streams:
                periods.append({'pid': f'n{tag}', 'stream_pk': some_stream()['pk'], 'start': 'PT0S', 'duration': 'PT8S', 'tracks': [1]})
            return G.op_edit_mps(m['name'], G.mps_body(m['name'], f'Retitled {tag}', periods, pk=m['pk']))
        if kind == 'delete-mps':
            return G.op_delete_mps(rng.choice(mps)['name'])
        raise AssertionError(kind)

    # ---------------------------------------------------------------- one history
    def run(self, hist_id: int, replay_ops: list | None = None, user: str | None = None) -> None:
        from dlv.mgmt import Harvest, execute
        from dlv.session import UserSession
        ctx, res, rng, env = self.ctx, self.res, self.ctx.rng, self.env
        self.obs.restore('empty')
        self.uploaded = {}
        env.clock.set(NOW)
        who = user or ('media' if rng.random() < 0.8 else 'admin')
        session = UserSession(env, *(env.MEDIA if who == 'media' else env.ADMIN))
        length = len(replay_ops) if replay_ops is not None else rng.randrange(5, ctx.scale(30, 60))
        steps: list[dict] = []
        ops_log: list[dict] = []
        reported: set[str] = set()
        script = self.scripted_prefix(rng) if replay_ops is None and rng.random() < 0.35 else []
        length += len(script)
        for step in range(length):
            w = self.world()
            if script:
                op = script.pop(0)(w)
                if op is None:
                    op = self.gen_op(rng, w)
            elif replay_ops is not None:
                if step >= len(replay_ops):
                    return
                op = dict(replay_ops[step])
                if 'file' in op:
                    op['file'] = (op['file'][0], self.media_lib[op['file'][0]])
                if 'token' in op and op['token']:
                    op['token'] = tuple(op['token'])
            else:
                op = self.gen_op(rng, w)
            ops_log.append({k: (v if k != 'file' else [v[0]]) for k, v in op.items()})
            any_spk = w['streams'][0]['pk'] if w['streams'] else None
            h = Harvest(session, any_spk, w['mps'][0]['name'] if w['mps'] else None)
            before = self.obs.observe()
            try:
                r = execute(session, h, op)
                status = r.status_code
            except Exception as err:
                status = f'client error {type(err).__name__}: {err}'
                r = None
            after = self.obs.observe()
            diff = self.obs.diff(before, after)
            changed = bool(diff['tables'] or diff['blobs'])
            steps.append({'op': op['name'], 'method': op['method'], 'url': op['url'],
                          'fields': {k: (v if not isinstance(v, (bytes, list, dict)) else '...') for k, v in op.get('fields', {}).items()},
                          'file': op.get('file', (None,))[0], 'status': status, 'changed': changed})
            res.count('steps')
            res.count('ops.' + op['name'])
            if changed:
                res.count('steps.changed')
            rp = {'history': [dict(x) for x in steps], 'ops': ops_log, 'hist_id': hist_id, 'user': who}
            if isinstance(status, int) and status >= 500:
                # an uncontrolled failure of the operation itself is C16's subject; here it is only
                # counted (the store must still be consistent afterwards, which is checked below)
                info = env.rec.last_exception or {}
                res.count('note:management-operation-5xx')
                res.bucket('management_5xx', f'{op["name"]}: {info.get("type")}: {info.get("repr", "")[:80]}')
            if isinstance(status, int) and 400 <= status < 500:
                # "each deletion removes exactly the rows it owns": an operation that was refused owns nothing
                lost = {name: d for name, d in diff['tables'].items()
                        if name.lower() in ('stream', 'media_file', 'blob', 'key', 'mediafile_keys', 'mp_stream', 'period')
                        and d['n_removed'] > d['n_added']}
                if lost:
                    res.violation(f'refused-operation-removed-rows-{op["name"]}',
                                  f'{op["method"]} {op["url"]} -> {status}, yet rows are gone from '
                                  f'{ {k: v["n_removed"] - v["n_added"] for k, v in lost.items()} } '
                                  f'(e.g. {next(iter(lost.values()))["removed"][:1]})', rp)
            if op['name'] == 'upload' and changed and r is not None:
                js = r.get_json(silent=True) or {}
                w2 = self.world()
                mf = next((f for f in w2['files'] if f['pk'] == js.get('pk')), None)
                if mf:
                    st = next((s for s in w2['streams'] if s['pk'] == mf['stream']), None)
                    if st:
                        self.uploaded[(st['directory'], mf['name'])] = op['file'][1]
            if op['name'] == 'edit-media' and changed:
                # the file was legitimately rewritten (track id / language): no byte-exact expectation any more
                mfid = int(op['url'].split('/')[3])
                for f in w['files']:
                    if f['pk'] == mfid:
                        st = next((x for x in w['streams'] if x['pk'] == f['stream']), None)
                        if st:
                            self.uploaded.pop((st['directory'], f['name']), None)
            # ---- ownership of deletions on the before/after diff
            self.check_ownership(op, before, diff, rp, reported)
            # ---- integrity after every step
            res.count('integrity.checks')
            for mech, msg in self.integrity.check():
                if mech.startswith('note:'):
                    res.count(mech)
                    continue
                if mech in reported:
                    continue
                reported.add(mech)
                res.violation(f'{mech}-after-{op["name"]}',
                              f'{msg} (after step {step}: {op["method"]} {op["url"]} -> {status})', rp)
            # ---- service still up?
            self.probe(rp, reported, op)
            wsig = self.world()
            res.case(f'{op["name"]}|{"changed" if changed else ("refused" if isinstance(status, int) and status < 500 else "error")}|'
                     f's{min(len(wsig["streams"]), 3)}f{min(len(wsig["files"]), 4)}m{min(len(wsig["mps"]), 2)}'
                     f'p{int(any(True for _ in wsig["periods"]))}',
                     steps[-1] if changed and rng.random() < 0.01 else None)
            if ctx.out_of_time():
                return

    def check_ownership(self, op, before, diff, rp, reported) -> None:
        res = self.res
        name = op['name']
        t = diff['tables']

        def removed(table):
            d = t.get(table)
            if not d:
                return []
            cols = d['columns']
            return [dict(zip(cols, r)) for r in d['removed']] if d['n_removed'] > d['n_added'] or d['removed'] else []
        if name.startswith('delete-stream'):
            spk = int(op['url'].split('/')[2].split('?')[0])
            gone_files = [r for r in removed('media_file')]
            wrong = [r for r in gone_files if r.get('stream') != spk]
            if wrong:
                res.violation('stream-deletion-removes-files-of-another-stream', f'{op["url"]}: removed {wrong[:2]}', rp)
            if t.get('key') and t['key']['n_removed']:
                res.violation('stream-deletion-removes-shared-keys', f'{op["url"]}: removed keys {t["key"]["removed"][:2]}', rp)
            other = [r for r in removed('Stream') if r.get('pk') != spk]
            if other:
                res.violation('stream-deletion-removes-other-streams', f'{op["url"]}: {other[:2]}', rp)
        if name.startswith('delete-media'):
            mfid = int(op['url'].split('/')[3].split('?')[0])
            wrong = [r for r in removed('media_file') if r.get('pk') != mfid]
            if wrong:
                res.violation('media-deletion-removes-other-files', f'{op["url"]}: removed {wrong[:2]}', rp)
            if t.get('Stream') and t['Stream']['n_removed'] > t['Stream']['n_added']:
                res.violation('media-deletion-removes-stream', f'{op["url"]}', rp)
            if t.get('key') and t['key']['n_removed'] > t['key']['n_added']:
                # a key is never owned by one media file: it may have been supplied by a user and
                # other files can be encrypted with it
                res.violation('media-deletion-removes-keys', f'{op["url"]}: removed keys {t["key"]["removed"][:2]}', rp)
        if name == 'upload':
            spk = int(op['url'].split('/')[2])
            gone = [r for r in removed('media_file') if r.get('stream') != spk]
            d = t.get('media_file')
            if d:
                cols = d['columns']
                added = [dict(zip(cols, r)) for r in d['added']]
                really_gone = [r for r in gone if r['pk'] not in {a['pk'] for a in added}]
                if really_gone:
                    res.violation('upload-deletes-file-of-another-stream',
                                  f'{op["url"]} file {op["file"][0]}: removed media file(s) {really_gone[:2]} of another stream', rp)
        if name in ('upload', 'index-media', 'edit-media') and t.get('key') and t['key']['n_removed'] > t['key']['n_added']:
            res.violation(f'{name}-removes-keys', f'{op["url"]}: removed keys {t["key"]["removed"][:2]}', rp)
        if name.startswith('delete-key'):
            if t.get('media_file') and t['media_file']['n_removed'] > t['media_file']['n_added']:
                res.violation('key-deletion-removes-media-files', f'{op["url"]}', rp)
        if name == 'delete-mps':
            if any(t.get(x) and t[x]['n_removed'] > t[x]['n_added'] for x in ('Stream', 'media_file', 'Blob', 'key')):
                res.violation('mps-deletion-removes-shared-rows', f'{op["url"]}: {list(t)}', rp)

    def probe(self, rp, reported, op) -> None:
        from dlv.livewalk import LiveWalk
        env, res = self.env, self.res
        w = self.world()
        client = env.client()
        urls = ['/streams?ajax=1', '/api/multi-period-streams?ajax=1', '/']
        for s in w['streams']:
            d = s['directory']
            urls += [f'/dash/vod/{d}/hand_made.mpd', f'/dash/live/{d}/hand_made.mpd?depth=20', f'/dash/odvod/{d}/hand_made.mpd',
                     f'/stream/{s["pk"]}?ajax=1', f'/stream/{s["pk"]}']
        for m in w['mps']:
            urls += [f'/mps/vod/{m["name"]}/hand_made.mpd', f'/mps/live/{m["name"]}/hand_made.mpd?depth=20',
                     f'/api/multi-period-streams/{m["name"]}?ajax=1']
        sdir = {s['pk']: s['directory'] for s in w['streams']}
        for f in w['files']:
            urls.append(f'/stream/{f["stream"]}/{f["pk"]}?ajax=1')
            if f.get('rep') and f['stream'] in sdir:
                # the media of every indexed file, with and without protection data
                d, n = sdir[f['stream']], f['name']
                urls += [f'/dash/vod/{d}/{n}/init.mp4', f'/dash/vod/{d}/{n}/init.mp4?drm=all', f'/dash/vod/{d}/{n}/1.mp4?drm=all',
                         f'/dash/live/{d}/{n}/init.mp4?drm=playready-moov']
        for s in w['streams']:
            urls.append(f'/dash/vod/{s["directory"]}/hand_made.mpd?drm=all')
        for u in urls:
            r = env.get(u, client=client)
            res.count('probe.requests')
            if r.status_code >= 500:
                info = env.rec.last_exception or {}
                site = 'unknown'
                for line in info.get('traceback', '').splitlines():
                    if '/dashlive/' in line and ', in ' in line:
                        site = line.rsplit(', in ', 1)[1].strip()
                kind = u.split('/')[1].split('?')[0] or 'home'
                mech = f'listed-object-answers-5xx-{kind}-{info.get("type")}-in-{site}'
                if mech not in reported:
                    reported.add(mech)
                    res.violation(mech, f'GET {u} -> {r.status_code}: {info.get("repr", "")[:200]} '
                                        f'(after {op["method"]} {op["url"]})', rp, traceback=info.get('traceback', '')[-1200:])
        # byte-exact read back of indexed uploads
        streams = {s['pk']: s for s in w['streams']}
        for f in w['files']:
            s = streams.get(f['stream'])
            if s is None or not f.get('rep'):
                continue
            data = self.uploaded.get((s['directory'], f['name']))
            if data is None:
                continue
            r = env.get(f'/dash/odvod/{s["directory"]}/{f["name"]}.mp4', client=client,
                        headers={'Range': f'bytes=0-{len(data) - 1}'})
            res.count('readback.files')
            if r.status_code != 206 or r.data != data:
                mech = 'indexed-upload-not-served-back-byte-exactly'
                if mech not in reported:
                    reported.add(mech)
                    res.violation(mech, f'/dash/odvod/{s["directory"]}/{f["name"]}.mp4 -> {r.status_code}, '
                                        f'{len(r.data)} bytes vs {len(data)} uploaded', rp)


def run_shard(ctx: ShardCtx) -> ShardResult:
    from dlv.reach import Reach
    res = ShardResult()
    h = History(ctx, res)
    try:
        reach = Reach([
            ('dashlive.server.models.stream', 'Stream.add_file'),
            ('dashlive.server.models.mediafile', 'MediaFile.parse_media_file'),
            ('dashlive.server.models.mediafile', 'MediaFile.modify_media_file'),
            ('dashlive.server.requesthandler.multi_period_streams', 'process_period'),
        ])
        if ctx.replay:
            r = ctx.replay['replay']
            h.run(r.get('hist_id', 0), replay_ops=r['ops'], user=r.get('user'))
            res.evaluations += 1
            reach.report(res)
            return res
        n = ctx.scale(10**6, 10**7)
        for i in range(n):
            h.run(ctx.shard * 10**6 + i)
            res.evaluations += 1
            if ctx.out_of_time():
                break
        reach.report(res)
    finally:
        h.close()
    return res
