"""Management operations as a client performs them against the real endpoints.

Every operation is described as a *request template* {method, url, kind(json|form|query|multipart),
fields, token: (service, field location)} so that it can be (a) executed by an authorised
session (C17 histories, positive controls) and (b) replayed verbatim by a lesser role with
the tokens that role can itself harvest (C15).
"""
from __future__ import annotations

import io
from urllib.parse import urlencode

from dlv.session import UserSession


class Harvest:
    """CSRF tokens and JWTs a session can obtain through GETs it is allowed to make."""

    def __init__(self, session: UserSession, any_spk: int | None, any_mps: str | None = None) -> None:
        self.session = session
        self.any_spk = any_spk
        self.any_mps = any_mps
        self.guest_access: str | None = None

    def access_token(self) -> str | None:
        s = self.session
        if s.access_token:
            return s.access_token
        if self.guest_access is None:
            r = s.request('GET', '/api/refresh/access')
            js = r.get_json(silent=True) or {}
            tok = js.get('accessToken')
            if isinstance(tok, dict):
                tok = tok.get('jwt')
            self.guest_access = tok
        return self.guest_access

    def bearer(self) -> dict:
        tok = self.access_token()
        return {'Authorization': f'Bearer {tok}'} if tok else {}

    def token(self, service: str) -> str | None:
        """service in streams|files|keys|upload; tries every source this role can reach"""
        s = self.session
        name = {'keys': 'kids'}.get(service, service)
        sources = []
        if self.any_spk is not None:
            sources.append((f'/stream/{self.any_spk}?ajax=1', {}))
        sources.append(('/streams?ajax=1', {}))
        for url, hdrs in sources:
            r = s.request('GET', url, headers=hdrs)
            js = r.get_json(silent=True) or {}
            toks = js.get('csrf_tokens') or {}
            if toks.get(name):
                return toks[name]
        r = s.request('GET', '/api/refresh/access', headers={})
        js = r.get_json(silent=True) or {}
        toks = js.get('csrfTokens') or {}
        if toks.get(name):
            return toks[name]
        if service == 'streams' and self.any_mps:
            r = s.request('GET', f'/api/multi-period-streams/{self.any_mps}?ajax=1', headers=self.bearer())
            js = r.get_json(silent=True) or {}
            toks = js.get('csrfTokens') or {}
            if toks.get('streams'):
                return toks['streams']
        return None


def execute(session: UserSession, harvest: Harvest, op: dict):
    """Send one request template with a fresh token harvested by this session."""
    fields = dict(op.get('fields', {}))
    query = dict(op.get('query', {}))
    headers = dict(op.get('headers', {}))
    if op.get('jwt'):
        headers.update(harvest.bearer())
    tok = None
    if op.get('token'):
        service, where = op['token']
        tok = harvest.token(service)
        if tok is not None:
            # tokens are URL-quoted by the server; forms/JSON carry them as given
            if where == 'query':
                from urllib.parse import unquote
                query['csrf_token'] = unquote(tok)
            else:
                fields['csrf_token'] = tok
    url = op['url']
    if query:
        url += ('&' if '?' in url else '?') + urlencode(query)
    kind = op.get('kind', 'query')
    if kind == 'json':
        return session.request(op['method'], url, json=fields, headers=headers)
    if kind == 'form':
        return session.request(op['method'], url, data=fields, headers=headers)
    if kind == 'multipart':
        data = dict(fields)
        fname, payload = op['file']
        data['file'] = (io.BytesIO(payload), fname)
        return session.request(op['method'], url, data=data, content_type='multipart/form-data', headers=headers)
    return session.request(op['method'], url, headers=headers)


# ------------------------------------------------------------------ request templates
def op_add_stream(directory: str, title: str, **extra) -> dict:
    return {'name': 'add-stream', 'needs': 'media', 'method': 'PUT', 'url': '/streams/add?ajax=1', 'kind': 'json',
            'fields': {'title': title, 'directory': directory, 'marlin_la_url': extra.get('marlin_la_url', ''),
                       'playready_la_url': extra.get('playready_la_url', '')},
            'token': ('streams', 'body')}


def op_add_stream_form(directory: str, title: str) -> dict:
    return {'name': 'add-stream-form', 'needs': 'media', 'method': 'POST', 'url': '/streams/add', 'kind': 'form',
            'fields': {'title': title, 'directory': directory, 'marlin_la_url': '', 'playready_la_url': ''},
            'token': ('streams', 'body')}


def op_edit_stream(spk: int, title: str, directory: str, timing_ref: str = '', **extra) -> dict:
    return {'name': 'edit-stream', 'needs': 'media', 'method': 'POST', 'url': f'/stream/{spk}?ajax=1', 'kind': 'json',
            'fields': {'title': title, 'directory': directory, 'marlin_la_url': extra.get('marlin_la_url', ''),
                       'playready_la_url': extra.get('playready_la_url', ''), 'timing_ref': timing_ref},
            'token': ('streams', 'body')}


def op_delete_stream(spk: int) -> dict:
    return {'name': 'delete-stream', 'needs': 'media', 'method': 'DELETE', 'url': f'/stream/{spk}?ajax=1',
            'kind': 'query', 'token': ('streams', 'query')}


def op_delete_stream_form(spk: int) -> dict:
    return {'name': 'delete-stream-form', 'needs': 'media', 'method': 'POST', 'url': f'/stream/{spk}/delete',
            'kind': 'form', 'fields': {}, 'token': ('streams', 'body')}


def op_stream_defaults(spk: int, form: dict) -> dict:
    return {'name': 'stream-defaults', 'needs': 'media', 'method': 'POST', 'url': f'/stream/{spk}/defaults',
            'kind': 'form', 'fields': dict(form), 'token': ('streams', 'body')}


def op_upload(spk: int, filename: str, payload: bytes) -> dict:
    return {'name': 'upload', 'needs': 'media', 'method': 'POST', 'url': f'/media/{spk}/blob', 'kind': 'multipart',
            'fields': {'ajax': '1'}, 'file': (filename, payload), 'token': ('upload', 'body')}


def op_index(mfid: int) -> dict:
    return {'name': 'index-media', 'needs': 'media', 'method': 'GET', 'url': f'/media/index/{mfid}?ajax=1',
            'kind': 'query', 'token': ('files', 'query')}


def op_edit_media(spk: int, mfid: int, track_id: int, lang: str) -> dict:
    return {'name': 'edit-media', 'needs': 'media', 'method': 'POST', 'url': f'/stream/{spk}/{mfid}/edit',
            'kind': 'form', 'fields': {'track_id': str(track_id), 'lang': lang}, 'token': ('files', 'body')}


def op_delete_media(spk: int, mfid: int) -> dict:
    return {'name': 'delete-media', 'needs': 'media', 'method': 'DELETE', 'url': f'/stream/{spk}/{mfid}?ajax=1',
            'kind': 'query', 'token': ('files', 'query')}


def op_delete_media_form(spk: int, mfid: int) -> dict:
    return {'name': 'delete-media-form', 'needs': 'media', 'method': 'POST', 'url': f'/stream/{spk}/{mfid}/delete',
            'kind': 'form', 'fields': {}, 'token': ('files', 'body')}


def op_add_key(kid: str, key: str | None) -> dict:
    q = {'kid': kid}
    if key:
        q['key'] = key
    return {'name': 'add-key', 'needs': 'media', 'method': 'PUT', 'url': '/key?ajax=1', 'kind': 'query',
            'query': q, 'token': ('keys', 'query')}


def op_add_key_form(kid: str, key: str) -> dict:
    return {'name': 'add-key-form', 'needs': 'media', 'method': 'POST', 'url': '/key', 'kind': 'form',
            'fields': {'hkid': kid, 'hkey': key, 'new_key': '1'}, 'token': ('keys', 'body')}


def op_edit_key(kpk: int, key: str) -> dict:
    return {'name': 'edit-key', 'needs': 'media', 'method': 'POST', 'url': f'/key/{kpk}', 'kind': 'form',
            'fields': {'hkey': key, 'new_key': '0'}, 'token': ('keys', 'body')}


def op_delete_key(kpk: int) -> dict:
    return {'name': 'delete-key', 'needs': 'media', 'method': 'DELETE', 'url': f'/key/{kpk}/delete?ajax=1',
            'kind': 'query', 'token': ('keys', 'query')}


def op_delete_key_form(kpk: int) -> dict:
    return {'name': 'delete-key-form', 'needs': 'media', 'method': 'POST', 'url': f'/key/{kpk}/delete',
            'kind': 'form', 'fields': {}, 'token': ('keys', 'body')}


def mps_body(name: str, title: str, periods: list[dict], pk=None) -> dict:
    body = {'name': name, 'title': title, 'pk': pk, 'options': None, 'periods': []}
    for i, p in enumerate(periods, start=1):
        body['periods'].append({
            'pk': p.get('pk'), 'pid': p['pid'], 'ordering': i, 'stream': p['stream_pk'], 'parent': pk,
            'start': p['start'], 'duration': p['duration'],
            'tracks': [{'track_id': t, 'role': 'main' if k == 0 else 'alternate', 'lang': None, 'encrypted': False}
                       for k, t in enumerate(p['tracks'])]})
    return body


def op_add_mps(name: str, title: str, periods: list[dict]) -> dict:
    return {'name': 'add-mps', 'needs': 'media', 'method': 'PUT', 'url': '/api/multi-period-streams/.add',
            'kind': 'json', 'fields': mps_body(name, title, periods), 'token': ('streams', 'body'), 'jwt': True}


def op_edit_mps(name: str, body: dict) -> dict:
    return {'name': 'edit-mps', 'needs': 'media', 'method': 'POST', 'url': f'/api/multi-period-streams/{name}?ajax=1',
            'kind': 'json', 'fields': body, 'token': ('streams', 'body'), 'jwt': True}


def op_delete_mps(name: str) -> dict:
    return {'name': 'delete-mps', 'needs': 'media', 'method': 'DELETE',
            'url': f'/api/multi-period-streams/{name}?ajax=1', 'kind': 'query', 'token': ('streams', 'query'), 'jwt': True}


def op_add_user(username: str, email: str, password: str, groups=('user',)) -> dict:
    f = {'username': username, 'email': email, 'password': password, 'confirmPassword': password,
         'mustChange': False}
    for g in groups:
        f[f'{g}Group'] = True
    return {'name': 'add-user', 'needs': 'admin', 'method': 'PUT', 'url': '/api/users', 'kind': 'json',
            'fields': f, 'jwt': True}


def op_edit_user(upk: int, username: str, email: str, password: str | None = None, groups=('user',)) -> dict:
    f = {'username': username, 'email': email, 'mustChange': False}
    if password:
        f.update({'password': password, 'confirmPassword': password})
    for g in groups:
        f[f'{g}Group'] = True
    return {'name': 'edit-user', 'needs': 'admin-or-self', 'target_user': upk, 'method': 'POST',
            'url': f'/api/users/{upk}', 'kind': 'json', 'fields': f, 'jwt': True}


def op_delete_user(upk: int) -> dict:
    return {'name': 'delete-user', 'needs': 'admin', 'target_user': upk, 'method': 'DELETE',
            'url': f'/api/users/{upk}', 'kind': 'query', 'jwt': True}
