"""Workload atoms: clocks, option vectors (see DESIGN.md section 3)."""
from __future__ import annotations

import datetime

UTC = datetime.timezone.utc

DRM_SYSTEMS = ['playready', 'marlin', 'clearkey']
DRM_LOCATIONS = ['pro', 'cenc', 'moov']


def iso(dt: datetime.datetime) -> str:
    return dt.isoformat()


def isoz(dt: datetime.datetime) -> str:
    """xs:dateTime with Z for UTC"""
    s = dt.astimezone(UTC).replace(tzinfo=None).isoformat()
    return s + 'Z'


def drm_selection(rng, allow_none: bool = True) -> str | None:
    r = rng.random()
    if allow_none and r < 0.35:
        return None
    if r < 0.45:
        return 'all'
    if r < 0.53:
        # every system, restricted to some locations
        locs = [loc for loc in DRM_LOCATIONS if rng.random() < 0.5] or [rng.choice(DRM_LOCATIONS)]
        return 'all-' + '-'.join(locs)
    systems = [s for s in DRM_SYSTEMS if rng.random() < 0.5] or [rng.choice(DRM_SYSTEMS)]
    parts = []
    for s in systems:
        if rng.random() < 0.5:
            parts.append(s)
        else:
            locs = [loc for loc in DRM_LOCATIONS if rng.random() < 0.5] or [rng.choice(DRM_LOCATIONS)]
            parts.append(s + '-' + '-'.join(locs))
    return ','.join(parts)


def segment_phase_offsets(rng, seg_s: float, ref_s: float) -> float:
    """delta = now - availabilityStartTime, chosen to hit sub-segment phases, loop boundaries,
    young streams and large magnitudes."""
    eps = rng.choice([0, 0, 1e-6, -1e-6, 1e-3, -1e-3, seg_s / 4, -seg_s / 4, seg_s / 2,
                      rng.random() * seg_s, rng.random()])
    kind = rng.random()
    if kind < 0.25:      # young streams
        base = rng.choice([0, 1, 2, seg_s, 2 * seg_s, 15, 29, 30, 31, 59, 60, 61, 90]) + rng.random() * rng.choice([0, 1, seg_s])
        return max(0.0, base)
    if kind < 0.55:      # segment-boundary phase grid
        k = rng.choice([rng.randrange(1, 60), rng.randrange(60, 5000), rng.randrange(5000, 10**6)])
        return max(0.0, k * seg_s + eps)
    if kind < 0.8:       # loop-boundary phase grid
        k = rng.choice([rng.randrange(1, 20), rng.randrange(20, 2000), rng.randrange(2000, 10**6)])
        return max(0.0, k * ref_s + eps)
    # log-uniform seconds .. 50 years
    import math
    return math.exp(rng.uniform(math.log(1.0), math.log(50 * 365.25 * 86400)))


def calendar_instants(rng) -> datetime.datetime:
    y = rng.randrange(2021, 2032)
    choices = [
        datetime.datetime(y, 1, 1, 0, 0, 0, tzinfo=UTC),
        datetime.datetime(y, rng.randrange(1, 13), 1, 0, 0, 0, tzinfo=UTC),
        datetime.datetime(2024, 2, 29, rng.randrange(24), rng.randrange(60), rng.randrange(60), tzinfo=UTC),
        datetime.datetime(y, 12, 31, 23, 59, 59, 999999, tzinfo=UTC),
        datetime.datetime(y, rng.randrange(1, 13), rng.randrange(1, 29), 0, 0, rng.randrange(0, 60), tzinfo=UTC),
        datetime.datetime(y, rng.randrange(1, 13), rng.randrange(1, 29), 0, 1, 0, tzinfo=UTC),
        datetime.datetime(y, rng.randrange(1, 13), rng.randrange(1, 29), rng.randrange(24),
                          rng.randrange(60), rng.randrange(60), rng.choice([0, 1, 500000, 999999, rng.randrange(10**6)]),
                          tzinfo=UTC),
    ]
    dt = rng.choice(choices)
    return dt + datetime.timedelta(microseconds=rng.choice([0, 0, 1, 999, rng.randrange(10**6)]),
                                   seconds=rng.choice([0, 0, 1, 59, 60, 61, rng.randrange(86400)]))


def live_clock_and_start(rng, seg_s: float = 4.0, ref_s: float = 40.0, plus_offsets: bool = True):
    """-> (now, start-parameter-or-None)"""
    r = rng.random()
    if r < 0.45:
        # symbolic start: the clock alone decides the phase
        start = rng.choice([None, 'year', 'today', 'month', 'epoch', 'now'])
        now = calendar_instants(rng)
        if rng.random() < 0.5 and start in (None, 'year', 'today', 'month'):
            # put `now` on a phase grid relative to the symbolic anchor
            day0 = now.replace(hour=0, minute=0, second=0, microsecond=0)
            now = day0 + datetime.timedelta(seconds=120 + segment_phase_offsets(rng, seg_s, ref_s) % 86000)
        return now, start
    now = calendar_instants(rng)
    delta = segment_phase_offsets(rng, seg_s, ref_s)
    ast = now - datetime.timedelta(seconds=delta)
    ast = ast.replace(microsecond=rng.choice([0, 0, 0, 0, ast.microsecond, 500000]))
    if ast > now:      # explicit start values are never in the future (quantified domain)
        ast = now.replace(microsecond=0)
    if ast < datetime.datetime(1971, 1, 1, tzinfo=UTC):
        ast = datetime.datetime(1971, 1, 1, tzinfo=UTC)
    if plus_offsets and rng.random() < 0.15:
        off = rng.choice([60, 330, -300, 120, -720, -210, -570, -30, 345, 765])
        tz = datetime.timezone(datetime.timedelta(minutes=off))
        return now, ast.astimezone(tz).isoformat()
    return now, isoz(ast)


def live_params(rng, manifest: str, timeline_capable: bool, drm_capable: bool,
                allow_drm: bool = True, allow_events: bool = True, plus_offsets: bool = True,
                seg_s: float = 4.0, ref_s: float = 40.0) -> tuple[dict, datetime.datetime]:
    p: dict[str, str] = {}
    now, start = live_clock_and_start(rng, seg_s, ref_s, plus_offsets)
    if start is not None:
        p['start'] = start
    d = rng.random()
    if d < 0.75:
        p['depth'] = str(rng.choice([0, 1, 3, 4, 5, 8, 10, 12, 16, 20, 29, 30, 31, 40, 41, 60, 90, 120, 130]))
    elif d < 0.8:
        p['depth'] = str(rng.choice([1800, 600, 240]))
    lw = rng.random()
    if lw < 0.7:
        p['leeway'] = str(rng.choice([0, 0, 1, 2, 3, 4, 5, 8, 10, 16, 20, 60]))
    if rng.random() < 0.4:
        p['mup'] = str(rng.choice([-1, 0, 1, 2, 4, 8, 30, 60, 3600]))
    if timeline_capable and rng.random() < 0.6:
        p['timeline'] = '1'
    if drm_capable and allow_drm:
        sel = drm_selection(rng)
        if sel:
            p['drm'] = sel
            if rng.random() < 0.3:
                p['playready__version'] = rng.choice(['1.0', '2.0', '3.0', '4.0'])
            if rng.random() < 0.3:
                p['playready__piff'] = rng.choice(['0', '1'])
            if rng.random() < 0.15:
                p['bugs'] = 'saio'
    if rng.random() < 0.3:
        p['abr'] = rng.choice(['0', '1'])
    if rng.random() < 0.3:
        p['acodec'] = rng.choice(['mp4a', 'ec-3', 'any'])
    if rng.random() < 0.3:
        p['base'] = rng.choice(['0', '1'])
    if allow_events and manifest in ('hand_made.mpd', 'manifest_n.mpd') and rng.random() < 0.3:
        ev = rng.choice(['ping', 'scte35', 'ping,scte35'])
        p['events'] = ev
        for name in ev.split(','):
            if rng.random() < 0.5:
                p[f'{name}__interval'] = str(rng.choice([50, 100, 150, 400, 1000, 1700]))
            if rng.random() < 0.3:
                p[f'{name}__inband'] = rng.choice(['0', '1'])
            if rng.random() < 0.3:
                p[f'{name}__version'] = rng.choice(['0', '1'])
            if rng.random() < 0.3:
                p[f'{name}__count'] = str(rng.choice([0, 1, 5, 50]))
    if manifest == 'hand_made.mpd' and p.get('timeline') == '1' and rng.random() < 0.25:
        p['patch'] = '1'
    if rng.random() < 0.15 and manifest in ('hand_made.mpd', 'manifest_e.mpd', 'manifest_h.mpd', 'manifest_i.mpd'):
        p['time'] = rng.choice(['direct', 'head', 'http-ntp', 'iso', 'ntp', 'sntp', 'xsd'])
    return p, now
