"""Shared workload for C01/C02/C03 (and reused by others): fetch a manifest at a frozen
virtual instant through the real WSGI app, decide from the document alone which
segments it makes addressable, fetch them at the same instant and hand every
response to the enabled oracles.
"""
from __future__ import annotations

import datetime
import hashlib
from fractions import Fraction
from urllib.parse import urlsplit

from dlv.core import ShardResult
from dlv.oracles import isobmff as ib
from dlv.oracles import mpd as M

UTC = datetime.timezone.utc

LIVE_TEMPLATES = ['hand_made.mpd', 'manifest_a.mpd', 'manifest_e.mpd', 'manifest_h.mpd',
                  'manifest_i.mpd', 'manifest_n.mpd', 'manifest_ef.mpd']
TIMELINE_TEMPLATES = {'hand_made.mpd', 'manifest_a.mpd', 'manifest_n.mpd'}
DRM_TEMPLATES = {'hand_made.mpd', 'manifest_e.mpd', 'manifest_h.mpd', 'manifest_i.mpd',
                 'manifest_n.mpd', 'manifest_ef.mpd', 'manifest_b.mpd'}


def qs(params: dict) -> str:
    from urllib.parse import quote
    if not params:
        return ''
    return '?' + '&'.join(f'{k}={quote(str(v), safe=":,-._~")}' for k, v in sorted(params.items()))


class StoredIndex:
    """The oracle's own view of the stored media of the streams registered in an AppEnv."""

    def __init__(self, env) -> None:
        self.files: dict[tuple[str, str], ib.StoredFile] = {}
        self.payload: dict[tuple[str, str], dict[bytes, list[int]]] = {}
        self.data = env.stored
        for key, buf in env.stored.items():
            try:
                sf = ib.index_file(buf)
            except Exception:
                continue
            self.files[key] = sf
            table: dict[bytes, list[int]] = {}
            for k, seg in enumerate(sf.segments):
                a, b = seg.mdat_payload
                table.setdefault(hashlib.sha1(buf[a:b]).digest(), []).append(k)
            self.payload[key] = table
        # Representation ids (and so the names in URLs) are the lower-case form of the media file names
        for (d, n) in list(self.files):
            alias = (d, n.lower())
            if alias not in self.files:
                self.files[alias] = self.files[(d, n)]
                self.payload[alias] = self.payload[(d, n)]
                self.data[alias] = self.data[(d, n)]

    def stored_has_tfdt(self, key) -> bool:
        return any(seg.tfdt is not None for seg in self.files[key].segments)

    def stored_decode_time(self, key, k: int) -> int:
        """Decode time of stored segment k (tfdt if present, else running sum from the first)."""
        sf = self.files[key]
        seg = sf.segments[k]
        if seg.tfdt is not None:
            return seg.tfdt
        base = sf.segments[0].tfdt or 0
        return base + sum(s.duration for s in sf.segments[:k])


class LiveWalk:
    def __init__(self, env, res: ShardResult, index: StoredIndex, oracles: set[str],
                 max_per_rep: int = 14) -> None:
        self.env = env
        self.res = res
        self.index = index
        self.oracles = oracles
        self.max_per_rep = max_per_rep
        self.client = env.client()

    # ------------------------------------------------------------------
    def fetch_manifest(self, case: dict):
        now = datetime.datetime.fromisoformat(case['now'])
        self.env.clock.set(now)
        url = f"/dash/{case.get('mode', 'live')}/{case['stream']}/{case['manifest']}" + qs(case['params'])
        resp = self.env.get(url, client=self.client)
        return now, url, resp

    def run_case(self, case: dict, rng) -> None:
        res = self.res
        now, url, resp = self.fetch_manifest(case)
        res.count('manifest.requests')
        if resp.status_code != 200:
            res.count(f'manifest.status.{resp.status_code}')
            res.evaluations += 1
            return  # the manifest request was not accepted: nothing is advertised
        res.count('manifest.ok')
        try:
            doc = M.parse_mpd(resp.data, 'http://localhost' + url)
        except Exception as err:
            res.count('manifest.unparseable')
            res.notes.append(f'manifest not parseable (left to C05): {type(err).__name__}')
            res.evaluations += 1
            return
        if doc.type != 'dynamic':
            res.count('manifest.not_dynamic')
            return
        replay = {'case': case}
        advertised_total = 0
        fetched_total = 0
        ast = doc.dt('availabilityStartTime')
        for period, rep in doc.all_reps():
            try:
                adds = M.live_addressable(doc, period, rep, now)
            except M.MpdError as err:
                res.notes.append(f'availability model not applicable: {err}')
                continue
            advertised_total += len(adds)
            # C02 on the document alone: gapless timeline
            if 'c02' in self.oracles and rep.timeline:
                self.check_gapless(case, rep, replay)
            key = (case['stream'], rep.id)
            # init segment
            iu = rep.init_url()
            if iu is not None:
                r = self.env.get(self._path(iu), client=self.client)
                res.count('init.requests')
                if 'c01' in self.oracles and r.status_code != 200:
                    res.violation(
                        self.c01_mechanism_init(case, r),
                        f'init segment of {rep.id} -> HTTP {r.status_code} ({r.data[:80]!r}) url={iu}',
                        {**replay, 'url': iu}, exception=self.env.rec.last_exception)
            if not adds:
                continue
            picks = self.pick(adds, rng)
            for a in picks:
                r = self.env.get(self._path(a.url), client=self.client)
                fetched_total += 1
                res.count('segment.requests')
                res.count(f'segment.kind.{a.kind}')
                edge = 'first' if a is adds[0] else 'last' if a is adds[-1] else 'inner'
                if r.status_code != 200:
                    res.count('segment.non200')
                    if 'c01' in self.oracles:
                        mech = self.c01_mechanism(case, doc, period, rep, a, adds, r, now)
                        res.violation(
                            mech,
                            f'{rep.id} ({rep.content_type}) {a.kind}={a.number if a.kind == "number" else a.time} '
                            f'({edge} of {len(adds)} advertised) -> HTTP {r.status_code} {r.data[:120]!r} '
                            f'at now={case["now"]} url={a.url}',
                            {**replay, 'url': a.url}, exception=self.env.rec.last_exception)
                    continue
                res.count('segment.ok')
                if self.oracles & {'c02', 'c03'}:
                    self.check_segment(case, doc, period, rep, a, r.data, key, replay, now, ast)
        res.count('segments.advertised', advertised_total)
        nontrivial = advertised_total > 0
        res.case(self.case_key(case, doc, now) if nontrivial else None,
                 {'url': url, 'now': case['now'], 'advertised': advertised_total,
                  'fetched': fetched_total} if nontrivial else None)

    # ------------------------------------------------------------------
    @staticmethod
    def _path(url: str) -> str:
        s = urlsplit(url)
        return s.path + ('?' + s.query if s.query else '')

    def pick(self, adds, rng):
        n = len(adds)
        if n <= self.max_per_rep:
            return adds
        edge = max(3, self.max_per_rep // 3)
        idx = set(range(edge)) | set(range(n - edge, n))
        while len(idx) < self.max_per_rep:
            idx.add(rng.randrange(n))
        return [adds[i] for i in sorted(idx)]

    def case_key(self, case, doc, now) -> str:
        p = case['params']
        ast = doc.dt('availabilityStartTime')
        el = M.seconds_between(ast, now) if ast else Fraction(0)
        phase = int((el % 4) * 4)          # quarter-second phase bucket against 4 s segments
        loops = int(el // 40)
        lb = 'l0' if loops == 0 else 'l<100' if loops < 100 else 'l<1e5' if loops < 10**5 else 'l>=1e5'
        return '|'.join([
            case['stream'], case['manifest'], 'tl' if p.get('timeline') == '1' else 'num',
            'lee' + str(p.get('leeway', 'dflt')), 'depth' + str(p.get('depth', 'dflt')),
            'drm' + str(p.get('drm', 'none')).split('-')[0], 'ph%d' % phase, lb,
            'start-' + (p.get('start', 'dflt') if p.get('start', 'dflt') in
                        ('year', 'today', 'month', 'epoch', 'now', 'dflt') else 'iso')])

    # ------------------------------------------------------------------ C01 classification
    def c01_mechanism_init(self, case, r) -> str:
        if r.status_code >= 500:
            return 'init-segment-5xx'
        if '+' in case['params'].get('start', '') or '%2B' in case['params'].get('start', ''):
            return 'start-offset-plus-sign-not-escaped-in-media-url'
        return f'init-segment-{r.status_code}'

    def c01_mechanism(self, case, doc, period, rep, a, adds, r, now) -> str:
        """Stable mechanism name for a refused advertised segment (used only to match
        known findings; never contains generated values)."""
        start = case['params'].get('start', '')
        if r.status_code >= 500:
            return 'advertised-segment-5xx'
        if ('+' in start or '%2B' in start) and '+' in urlsplit(a.url).query:
            return 'start-offset-plus-sign-not-escaped-in-media-url'
        pos = 'first' if a is adds[0] else 'last' if a is adds[-1] else 'inner'
        if len(adds) > 2 and pos == 'inner':
            # second / second-to-last are still "edge" for the number window
            i = adds.index(a)
            if i <= 2:
                pos = 'first'
            elif i >= len(adds) - 2:
                pos = 'last'
        return f'advertised-{a.kind}-segment-refused-{pos}-{rep.content_type}'

    # ------------------------------------------------------------------ C02
    def check_gapless(self, case, rep, replay) -> None:
        res = self.res
        tl = rep.timeline
        res.count('c02.timelines')
        for i in range(len(tl) - 1):
            res.count('c02.timeline_pairs')
            if tl[i].t + tl[i].d != tl[i + 1].t:
                res.violation('timeline-gap-or-overlap',
                              f'{rep.id}: S[{i}] t={tl[i].t} d={tl[i].d} but next t={tl[i + 1].t} '
                              f'(delta {tl[i + 1].t - tl[i].t - tl[i].d}) now={case["now"]}', replay)
                break

    def ref_duration(self, stream: str) -> Fraction | None:
        """Timing-reference duration in seconds, from the oracle's own index."""
        ref = self.env_ref.get(stream)
        return ref

    def check_segment(self, case, doc, period, rep, a, data: bytes, key, replay, now, ast) -> None:
        res = self.res
        rp = {**replay, 'url': a.url}
        try:
            frag = ib.read_fragment(data)
        except (ib.BoxError, Exception) as err:
            if 'c03' in self.oracles:
                res.violation('served-segment-not-well-formed',
                              f'{rep.id} {a.kind}={a.number or a.time}: {type(err).__name__}: {err}', rp)
            return
        sf = self.index.files.get(key)
        if sf is None:
            res.count('stored-file-unknown')
            return
        payload = data[frag.mdat.body:frag.mdat.end]
        ks = self.index.payload[key].get(hashlib.sha1(payload).digest())
        k = ks[0] if ks else None
        self._candidates = ks or []
        if 'c02' in self.oracles:
            self.c02_segment(case, doc, rep, a, frag, sf, k, key, rp)
        if 'c03' in self.oracles:
            self.c03_segment(case, rep, a, data, frag, sf, k, key, rp)

    def c02_segment(self, case, doc, rep, a, frag, sf, k, key, rp) -> None:
        res = self.res
        res.count('c02.segments')
        durs = ib.sample_durations(frag.trun, frag.tfhd, sf.trex)
        total = sum(durs)
        if frag.tfdt is None:
            res.violation('served-segment-without-tfdt', f'{rep.id}: no tfdt in served segment', rp)
            return
        ver, tfdt = frag.tfdt
        if (tfdt >= 2**32) != (ver == 1):
            # v1 for a small value is legal; v0 for a large value is impossible
            if tfdt >= 2**32:
                res.violation('tfdt-version-wrong', f'{rep.id}: tfdt {tfdt} in version {ver}', rp)
        if tfdt >= 2**32:
            res.count('c02.tfdt_over_32bit')
        stream = case['stream']
        ref = self.refs.get(stream)
        own = sf.duration
        drift = None
        if ref is not None:
            ref_ticks = Fraction(ref) * sf.timescale
            drift = ref_ticks - own
        if a.kind == 'time':
            res.count('c02.by_time')
            if tfdt != a.time:
                res.violation('time-addressed-segment-wrong-decode-time',
                              f'{rep.id}: $Time$={a.time} but tfdt={tfdt} (delta {tfdt - a.time})', rp)
            if total != a.duration:
                is_last = (len(sf.segments) - 1) in self._candidates
                if is_last and drift is not None and 0 <= drift - (a.duration - total) < 1:
                    mech = 'timeline-last-segment-of-loop-advertises-duration-plus-drift'
                else:
                    mech = 'time-addressed-segment-wrong-duration'
                res.violation(mech,
                              f'{rep.id}: S@d={a.duration} but samples sum to {total} '
                              f'(stored segment index {k}, drift {drift})', rp)
        else:
            res.count('c02.by_number')
            if frag.sequence_number != a.number:
                res.violation('number-addressed-segment-wrong-sequence-number',
                              f'{rep.id}: $Number$={a.number} but mfhd.sequence_number={frag.sequence_number}', rp)
            nominal = (a.number - rep.start_number) * rep.duration
            tol = Fraction(max(s.duration for s in sf.segments), 2) + abs(drift or 0) + 1
            if abs(tfdt - nominal) > tol:
                res.violation('number-addressed-segment-decode-time-off',
                              f'{rep.id}: $Number$={a.number}: tfdt={tfdt}, nominal {nominal}, '
                              f'|delta|={abs(tfdt - nominal)} > {float(tol)}', rp)
        # alignment: delivered source position == presentation time modulo reference duration
        if k is not None and ref is not None:
            res.count('c02.alignment_checked')
            first = self.index.stored_decode_time(key, 0)
            R = Fraction(ref)
            tick = Fraction(1, sf.timescale)
            aligned = False
            # several stored segments can share one payload (e.g. empty subtitle segments):
            # the delivered source position is any stored segment carrying these bytes
            for kk in self._candidates:
                pos_k = self.index.stored_decode_time(key, kk)
                delta = Fraction(tfdt - (pos_k - first), sf.timescale)   # presentation time of loop origin
                m = delta % R
                if m <= tick or m >= R - tick:
                    aligned = True
                    break
            if len(self._candidates) > 1:
                res.count('c02.ambiguous_payload')
            if not aligned:
                loops = int(delta // R)
                mech = 'loop-origin-misaligned-with-reference-duration'
                ref_ticks = R * sf.timescale
                if ref_ticks.denominator != 1:
                    # the reference duration is not a whole number of this track's ticks; the server
                    # advances the loop origin by floor(reference ticks) per loop
                    fl = ref_ticks.numerator // ref_ticks.denominator
                    for kk in self._candidates:
                        d_ticks = tfdt - (self.index.stored_decode_time(key, kk) - first)
                        if d_ticks % fl == 0:       # an exact multiple: chance 1/fl (~1e-6) otherwise
                            mech = 'loop-origin-advances-by-floored-reference-duration'
                            break
                res.violation(mech,
                              f'{rep.id}: served tfdt {tfdt} - stored position {pos_k - first} = '
                              f'{float(delta)} s is {float(min(m, R - m))} s away from a multiple of the '
                              f'reference duration {float(R)} s after {loops} loops', rp)
        elif k is None:
            res.count('c02.payload_unidentified')

    def c03_segment(self, case, rep, a, data, frag, sf, k, key, rp) -> None:
        res = self.res
        res.count('c03.segments')
        if k is None:
            res.violation('served-payload-not-a-stored-payload',
                          f'{rep.id} {a.kind}={a.number or a.time}: mdat payload ({frag.mdat.size - frag.mdat.header} '
                          f'bytes) matches no stored segment of the file', rp)
            return
        base = ib.data_base(frag)
        if 'data_offset' not in frag.trun:
            # without data_offset the data starts right after the moof (8.8.8) only if mdat header follows
            first_byte = None
        else:
            first_byte = base + frag.trun['data_offset']
        if first_byte is not None and first_byte != frag.mdat.body:
            res.violation('trun-data-offset-not-first-payload-byte',
                          f'{rep.id}: base {base} + data_offset {frag.trun["data_offset"]} = {first_byte}, '
                          f'payload starts at {frag.mdat.body} (top-level {frag.top_types})', rp)
        sizes = ib.sample_sizes(frag.trun, frag.tfhd, sf.trex)
        if sum(sizes) != frag.mdat.size - frag.mdat.header:
            res.violation('sample-sizes-do-not-sum-to-payload',
                          f'{rep.id}: sizes sum {sum(sizes)} payload {frag.mdat.size - frag.mdat.header}', rp)
        if frag.has_sidx:
            res.violation('sidx-not-removed', f'{rep.id}: served segment still has a sidx box', rp)
        if sf.tenc is not None:
            self.c03_encrypted(case, rep, data, frag, sf, rp)

    def c03_encrypted(self, case, rep, data, frag, sf, rp) -> None:
        res = self.res
        res.count('c03.encrypted_segments')
        iv = sf.tenc['iv_size']
        senc = None
        if frag.senc_box is not None:
            try:
                senc = ib.read_senc(data, frag.senc_box, iv)
            except ib.BoxError as err:
                res.violation('senc-not-parseable', f'{rep.id}: {err}', rp)
                return
            if senc['count'] != frag.trun['sample_count']:
                res.violation('senc-trun-sample-count-differs',
                              f'{rep.id}: senc {senc["count"]} trun {frag.trun["sample_count"]}', rp)
        if frag.piff_senc_box is not None:
            res.count('c03.piff_boxes')
            try:
                piff = ib.read_senc(data, frag.piff_senc_box, iv, piff=True)
                if piff['count'] != frag.trun['sample_count']:
                    res.violation('piff-trun-sample-count-differs', f'{rep.id}', rp)
            except ib.BoxError as err:
                res.violation('piff-senc-not-parseable', f'{rep.id}: {err}', rp)
        if frag.saio is not None and senc is not None:
            res.count('c03.saio_checked')
            # effective value: the URL parameter, else the stream's saved default
            bugs = case['params'].get('bugs', getattr(self.env, 'defaults_form', {}).get(case['stream'], {}).get('bugs', ''))
            offs = frag.saio['offsets']
            base = ib.data_base(frag)
            if len(offs) != 1 or base + offs[0] != senc['first_entry']:
                if 'saio' in bugs:
                    res.count('c03.saio_bug_waived')
                else:
                    res.violation('saio-offset-not-first-senc-entry',
                                  f'{rep.id}: base {base} + saio {offs} != first senc entry {senc["first_entry"]} '
                                  f'(traf {frag.traf_types})', rp)
        if frag.saiz is not None and senc is not None:
            z = frag.saiz
            if z['count'] != senc['count']:
                res.violation('saiz-senc-sample-count-differs', f'{rep.id}: saiz {z["count"]} senc {senc["count"]}', rp)
            else:
                want = senc['entry_sizes']
                got = z['sizes'] if z['default_size'] == 0 else [z['default_size']] * z['count']
                if got != want:
                    res.violation('saiz-sizes-differ-from-senc-entries', f'{rep.id}', rp)

    # filled by the check: stream -> reference duration (Fraction seconds)
    refs: dict = {}
