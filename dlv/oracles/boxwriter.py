"""Independent ISO-BMFF *writer* used as a generator of well-formed boxes with legal field
values (ISO/IEC 14496-12, 23001-7 (CENC), 23009-1 (emsg), ISO/IEC 14496-30 (vttC)).
Shares no code with dashlive; every function returns the complete box bytes.
"""
from __future__ import annotations

import struct

PIFF_UUID = bytes.fromhex('a2394f525a9b4f14a2446c427c648df4')


def box(typ: bytes, payload: bytes, large: bool = False, usertype: bytes | None = None) -> bytes:
    extra = usertype or b''
    if large:
        return struct.pack('>I4sQ', 1, typ, 16 + len(extra) + len(payload)) + extra + payload
    return struct.pack('>I4s', 8 + len(extra) + len(payload), typ) + extra + payload


def full(typ: bytes, version: int, flags: int, payload: bytes, **kw) -> bytes:
    return box(typ, struct.pack('>I', (version << 24) | flags) + payload, **kw)


def bits(rng, n: int) -> int:
    return rng.choice([0, 1, (1 << n) - 1, 1 << (n - 1), rng.randrange(1 << n)])


UNITY = struct.pack('>9I', 0x10000, 0, 0, 0, 0x10000, 0, 0, 0, 0x40000000)


def ftyp(rng, typ=b'ftyp') -> bytes:
    brands = [rng.choice([b'iso6', b'dash', b'msdh', b'msix', b'cmfc', b'avc1', b'isom', b'iso5'])
              for _ in range(rng.randrange(0, 5))]
    return box(typ, rng.choice([b'iso6', b'dash', b'msdh', b'isom']) + struct.pack('>I', bits(rng, 32)) + b''.join(brands))


def times(rng, n: int) -> int:
    """creation/modification time: seconds since 1904, kept below year ~2176"""
    return rng.choice([0, 1, (1 << 32) - 1, (1 << n) - 1, rng.randrange(1 << n)])


def mvhd(rng) -> bytes:
    v = rng.randrange(2)
    if v:
        head = struct.pack('>QQIQ', times(rng, 33), times(rng, 33), rng.choice([1, 240, 1000, 90000, bits(rng, 32) or 1]), bits(rng, 64))
    else:
        head = struct.pack('>IIII', bits(rng, 32), bits(rng, 32), rng.choice([1, 240, 1000, 90000, bits(rng, 32) or 1]), bits(rng, 32))
    body = head + struct.pack('>IH', 0x10000, 0x100) + b'\0' * 10 + UNITY + b'\0' * 24 + struct.pack('>I', bits(rng, 32))
    return full(b'mvhd', v, 0, body)


def tkhd(rng) -> bytes:
    v = rng.randrange(2)
    flags = rng.choice([1, 3, 7, 0xF, 0])
    tid = bits(rng, 32)
    if v:
        head = struct.pack('>QQIIQ', times(rng, 33), times(rng, 33), tid, 0, bits(rng, 64))
    else:
        head = struct.pack('>IIIII', bits(rng, 32), bits(rng, 32), tid, 0, bits(rng, 32))
    body = head + b'\0' * 8 + struct.pack('>hhH', rng.choice([0, 1, -1]), rng.choice([0, 1, 2]), rng.choice([0, 0x100])) + \
        b'\0' * 2 + UNITY + struct.pack('>II', rng.choice([0, 1920 << 16, 640 << 16, bits(rng, 32)]),
                                         rng.choice([0, 1080 << 16, 360 << 16, bits(rng, 32)]))
    return full(b'tkhd', v, flags, body)


def pack_lang(code: str) -> int:
    a, b, c = (ord(ch) - 0x60 for ch in code)
    return (a << 10) | (b << 5) | c


def mdhd(rng) -> bytes:
    v = rng.randrange(2)
    ts = rng.choice([1, 200, 240, 44100, 48000, 90000, 10**7, bits(rng, 32) or 1])
    if v:
        head = struct.pack('>QQIQ', times(rng, 33), times(rng, 33), ts, bits(rng, 64))
    else:
        head = struct.pack('>IIII', bits(rng, 32), bits(rng, 32), ts, bits(rng, 32))
    lang = rng.choice(['und', 'eng', 'fra', 'deu', 'zxx', 'mul', 'aaa', 'zzz'])
    return full(b'mdhd', v, 0, head + struct.pack('>HH', pack_lang(lang), 0))


def hdlr(rng) -> bytes:
    name = rng.choice([b'', b'VideoHandler', b'SoundHandler', b'USP Text Handler', 'Gestionnaire vid\u00e9o'.encode()])
    # the name is a null-terminated string; writers also pad it with further NULs, and QuickTime-style
    # writers end the box right after the last character
    term = rng.choice([b'\0'] * 6 + [b'', b'\0\0', b'\0\0\0\0'])
    return full(b'hdlr', 0, 0, b'\0' * 4 + rng.choice([b'vide', b'soun', b'subt', b'text', b'meta']) + b'\0' * 12 + name + term)


def mehd(rng) -> bytes:
    v = rng.randrange(2)
    return full(b'mehd', v, 0, struct.pack('>Q' if v else '>I', bits(rng, 64 if v else 32)))


def trex(rng) -> bytes:
    return full(b'trex', 0, 0, struct.pack('>5I', bits(rng, 32), rng.choice([1, 2]), bits(rng, 32), bits(rng, 32), bits(rng, 32)))


def mfhd(rng) -> bytes:
    return full(b'mfhd', 0, 0, struct.pack('>I', bits(rng, 32)))


def tfhd(rng, track_id=None, allow_base=True) -> tuple[bytes, dict]:
    flags = 0
    body = struct.pack('>I', track_id if track_id is not None else bits(rng, 32))
    info = {}
    if allow_base and rng.random() < 0.3:
        flags |= 0x1
        info['base_data_offset'] = bits(rng, 48)
        body += struct.pack('>Q', info['base_data_offset'])
    if rng.random() < 0.3:
        flags |= 0x2
        body += struct.pack('>I', rng.choice([1, 2]))
    for bit, name in ((0x8, 'default_sample_duration'), (0x10, 'default_sample_size'), (0x20, 'default_sample_flags')):
        if rng.random() < 0.5:
            flags |= bit
            info[name] = bits(rng, 32)
            body += struct.pack('>I', info[name])
    if rng.random() < 0.1:
        flags |= 0x10000
    if not (flags & 1) and rng.random() < 0.6:
        flags |= 0x20000
    return full(b'tfhd', 0, flags, body), info


def tfdt(rng) -> bytes:
    v = rng.randrange(2)
    return full(b'tfdt', v, 0, struct.pack('>Q' if v else '>I', bits(rng, 64 if v else 32)))


def trun(rng, count=None) -> bytes:
    v = rng.randrange(2)
    flags = rng.choice([0, 0x1, 0x5, 0x301, 0xB01, 0xF01, 0x200, 0x100, 0xA05, rng.randrange(0x1000) & 0xF05])
    if flags & 0x4:
        flags &= ~0x400         # 8.8.8.1: with first-sample-flags, sample-flags shall not be present
    n = count if count is not None else rng.choice([0, 1, 2, 3, 7, 50])
    body = struct.pack('>I', n)
    if flags & 1:
        body += struct.pack('>i', rng.choice([0, 8, -1, 2**31 - 1, rng.randrange(-2**31, 2**31)]))
    if flags & 4:
        body += struct.pack('>I', bits(rng, 32))
    for _ in range(n):
        for bit in (0x100, 0x200, 0x400):
            if flags & bit:
                body += struct.pack('>I', bits(rng, 32))
        if flags & 0x800:
            body += struct.pack('>i', rng.choice([0, 1, -1, -2**31, 2**31 - 1])) if v else struct.pack('>I', bits(rng, 32))
    return full(b'trun', v, flags, body)



TEXTLIKE = [b'0x', b'0X', b'hx=', b'b64=', b'{"', b'<?xml ', b'urn:', b'\x00', b'\xff\xfe', b'\xef\xbb\xbf']


def blob(rng, n: int) -> bytes:
    """n opaque payload bytes. Mostly random; sometimes bytes that *look like* something a lenient reader
    might interpret (ASCII hex with a 0x prefix, base64 text, key=value, all zero / all ones): an opaque
    field has to come back byte for byte whatever it holds."""
    r = rng.random()
    if n == 0 or r < 0.7:
        return rng.randbytes(n)
    if r < 0.85:
        pre = rng.choice(TEXTLIKE)[:n]
        alphabet = rng.choice([b'0123456789abcdef', b'0123456789ABCDEF', b'ghijklmnopqrstuv -_',
                               b'ABCDEFGHIJKLMNOPQRSTUVWXYZabcdefghijklmnopqrstuvwxyz0123456789+/='])
        return pre + bytes(rng.choice(alphabet) for _ in range(n - len(pre)))
    if r < 0.93:
        return bytes([rng.choice([0, 0xFF, 0x30, 0x20])]) * n
    return (rng.choice(TEXTLIKE) + rng.randbytes(n))[:n]


def cenc_group(rng, n: int, iv_size: int, piff: bool = False) -> list[bytes]:
    """saiz + saio + senc for n samples (consistent with each other)"""
    subs = rng.random() < 0.5
    entries = []
    for _ in range(n):
        e = blob(rng, iv_size)
        if subs:
            k = rng.choice([0, 1, 2, 3]) if rng.random() < 0.3 else rng.choice([1, 2])
            e += struct.pack('>H', k) + b''.join(struct.pack('>HI', bits(rng, 16), bits(rng, 32)) for _ in range(k))
        entries.append(e)
    sizes = [len(e) for e in entries]
    with_type = rng.random() < 0.3
    aux = (b'cenc' + struct.pack('>I', 0)) if with_type else b''
    if sizes and len(set(sizes)) == 1 and rng.random() < 0.7:
        saiz = full(b'saiz', 0, 1 if with_type else 0, aux + struct.pack('>BI', sizes[0], n))
    else:
        saiz = full(b'saiz', 0, 1 if with_type else 0, aux + struct.pack('>BI', 0, n) + bytes(sizes))
    v = rng.randrange(2)
    saio = full(b'saio', v, 1 if with_type else 0, aux + struct.pack('>I', 1) + struct.pack('>Q' if v else '>I', bits(rng, 32)))
    senc_body = struct.pack('>I', n) + b''.join(entries)
    senc = full(b'senc', 0, 2 if subs else 0, senc_body)
    out = [saiz, saio, senc]
    if piff:
        out.insert(0, full(b'uuid', 0, 2 if subs else 0, senc_body, usertype=PIFF_UUID, large=rng.random() < 0.25))
    if rng.random() < 0.3:
        out = [out[-1]] + out[:-1]          # senc before saiz
    return out


def tenc(rng) -> tuple[bytes, int, bytes]:
    v = rng.randrange(2)
    iv = rng.choice([8, 16])
    kid = blob(rng, 16)
    second = bits(rng, 8) if v else 0
    return full(b'tenc', v, 0, bytes([0, second, 1, iv]) + kid), iv, kid


def pssh(rng) -> bytes:
    v = rng.randrange(2)
    body = rng.choice([bytes.fromhex('9a04f07998404286ab92e65be0885f95'), bytes.fromhex('1077efecc0b24d02ace33c1e52e2fb4b'),
                       bytes.fromhex('edef8ba979d64acea3c827dcd51d21ed'), rng.randbytes(16)])
    if v:
        n = rng.choice([0, 1, 2, 5])
        body += struct.pack('>I', n) + b''.join(blob(rng, 16) for _ in range(n))
    data = blob(rng, rng.choice([0, 1, 20, 300, 10, 11]))
    return full(b'pssh', v, 0, body + struct.pack('>I', len(data)) + data)


def sidx(rng) -> bytes:
    v = rng.randrange(2)
    n = rng.choice([0, 1, 2, 10])
    body = struct.pack('>II', bits(rng, 32), rng.choice([240, 44100, 90000, bits(rng, 32) or 1]))
    body += struct.pack('>QQ' if v else '>II', bits(rng, 64 if v else 32), bits(rng, 64 if v else 32))
    body += struct.pack('>HH', 0, n)
    for _ in range(n):
        body += struct.pack('>III', (rng.randrange(2) << 31) | bits(rng, 31), bits(rng, 32),
                            (rng.randrange(2) << 31) | (rng.randrange(8) << 28) | bits(rng, 28))
    return full(b'sidx', v, 0, body)


def emsg(rng) -> bytes:
    v = rng.randrange(2)
    scheme = rng.choice([b'urn:dash-live:pingpong:2022', b'urn:scte:scte35:2013:bin', b'', 'urn:x:\u00e9'.encode()]) + b'\0'
    value = rng.choice([b'', b'0', b'1', b'value with spaces']) + b'\0'
    data = blob(rng, rng.choice([0, 4, 33, 10]))
    if v == 0:
        body = scheme + value + struct.pack('>IIII', bits(rng, 32) or 1, bits(rng, 32), bits(rng, 32), bits(rng, 32))
    else:
        body = struct.pack('>IQII', bits(rng, 32) or 1, bits(rng, 64), bits(rng, 32), bits(rng, 32)) + scheme + value
    return full(b'emsg', v, 0, body + data)


def btrt(rng) -> bytes:
    return box(b'btrt', struct.pack('>III', bits(rng, 32), bits(rng, 32), bits(rng, 32)))


def pasp(rng) -> bytes:
    return box(b'pasp', struct.pack('>II', bits(rng, 32), bits(rng, 32)))


def frma(rng) -> bytes:
    return box(b'frma', rng.choice([b'avc1', b'avc3', b'mp4a', b'hev1', b'ec-3', b'stpp']))


def schm(rng) -> bytes:
    return full(b'schm', 0, 0, rng.choice([b'cenc', b'cbcs', b'cbc1']) + struct.pack('>I', rng.choice([0x10000, bits(rng, 32)])))


def mime(rng) -> bytes:
    return full(b'mime', 0, 0, rng.choice([b'application/ttml+xml;codecs=im1t', b'text/vtt', b'image/png', b'']) + b'\0')


def vttc(rng) -> bytes:
    return box(b'vttC', rng.choice([b'WEBVTT', b'WEBVTT\n\nNOTE x', b'WEBVTT - caption']))


def unknown(rng, large=False) -> bytes:
    typ = rng.choice([b'free', b'skip', b'zzzz', b'abcd', b'prft'])
    return box(typ, blob(rng, rng.choice([0, 1, 8, 100])), large=large)


def unknown_uuid(rng) -> bytes:
    return box(b'uuid', blob(rng, rng.choice([0, 12])), usertype=rng.randbytes(16), large=rng.random() < 0.3)


def desc(tag: int, payload: bytes, pad4: bool) -> bytes:
    """ISO/IEC 14496-1 8.3.3 expandable size: 7 bits per byte, most significant group first,
    bit 7 set on all but the last byte; pad4 = the four-byte form many muxers write"""
    n = len(payload)
    groups = []
    while True:
        groups.insert(0, n & 0x7F)
        n >>= 7
        if not n:
            break
    if pad4:
        groups = [0] * (4 - len(groups)) + groups
    size = bytes([g | 0x80 for g in groups[:-1]] + [groups[-1]])
    return bytes([tag]) + size + payload


def esds(rng) -> bytes:
    pad4 = rng.random() < 0.5
    asc = rng.choice([b'\x12\x10', b'\x11\x90', b'\x12\x08', b'\x13\x10', b'\x12\x10\x56\xe5\x00'])
    dsi = desc(5, asc, pad4)
    dcd = desc(4, bytes([0x40, 0x15]) + bits(rng, 24).to_bytes(3, 'big') + struct.pack('>II', bits(rng, 32), bits(rng, 32)) + dsi, pad4)
    flags = rng.choice([0, 0, 0x1F, 0x40, 0x80, 0x20, 0xE3])
    body = struct.pack('>HB', bits(rng, 16), flags)
    if flags & 0x80:
        body += struct.pack('>H', bits(rng, 16))
    if flags & 0x40:
        url = b'http://example.test/' + b'x' * rng.choice([0, 10, 120, 200])
        body += bytes([len(url)]) + url
    if flags & 0x20:
        body += struct.pack('>H', bits(rng, 16))
    sl = desc(6, b'\x02', pad4)
    return full(b'esds', 0, 0, desc(3, body + dcd + sl, pad4))


def container(typ: bytes, children: list[bytes], large: bool = False) -> bytes:
    return box(typ, b''.join(children), large=large)


LEAF_GENERATORS = {
    'ftyp': ftyp, 'styp': lambda r: ftyp(r, b'styp'), 'mvhd': mvhd, 'tkhd': tkhd, 'mdhd': mdhd, 'hdlr': hdlr,
    'mehd': mehd, 'trex': trex, 'mfhd': mfhd, 'tfdt': tfdt, 'trun': trun, 'pssh': pssh, 'sidx': sidx, 'emsg': emsg,
    'btrt': btrt, 'pasp': pasp, 'esds': esds, 'frma': frma, 'schm': schm, 'mime': mime, 'vttC': vttc,
}
