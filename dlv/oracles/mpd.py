"""Independent reader of MPD documents (ISO/IEC 23009-1): BaseURL resolution,
SegmentTemplate inheritance and substitution, SegmentTimeline expansion and the
segment availability model of 5.3.9.5.3 in exact rational arithmetic.

Shares no code with dashlive.
"""
from __future__ import annotations

import datetime
import re
from dataclasses import dataclass, field
from fractions import Fraction
from urllib.parse import urljoin

from lxml import etree

NS = 'urn:mpeg:dash:schema:mpd:2011'
Q = '{%s}' % NS
UTC = datetime.timezone.utc

DURATION_RE = re.compile(
    r'^(-)?P(?:(\d+)Y)?(?:(\d+)M)?(?:(\d+)D)?(?:T(?:(\d+)H)?(?:(\d+)M)?(?:(\d+(?:\.\d+)?)S)?)?$')
DATETIME_RE = re.compile(
    r'^(-?\d{4,})-(\d\d)-(\d\d)T(\d\d):(\d\d):(\d\d)(?:\.(\d+))?(Z|[+-]\d\d:\d\d)?$')
TEMPLATE_ID_RE = re.compile(r'\$(\w*)(%0\d+d)?\$')


class MpdError(Exception):
    pass


def parse_duration(text: str) -> Fraction:
    m = DURATION_RE.match(text.strip())
    if not m or text.strip() in ('P', 'PT', '-P') or text.strip().endswith('T'):
        raise MpdError(f'not an xs:duration: {text!r}')
    neg, y, mo, d, h, mi, s = m.groups()
    total = Fraction(0)
    total += int(y or 0) * 365 * 86400
    total += int(mo or 0) * 30 * 86400
    total += int(d or 0) * 86400 + int(h or 0) * 3600 + int(mi or 0) * 60
    if s:
        total += Fraction(s)
    return -total if neg else total


def parse_datetime(text: str) -> datetime.datetime:
    m = DATETIME_RE.match(text.strip())
    if not m:
        raise MpdError(f'not an xs:dateTime: {text!r}')
    y, mo, d, h, mi, s, frac, zone = m.groups()
    us = int((frac or '').ljust(6, '0')[:6] or 0)
    if zone in (None, 'Z'):
        tz = UTC
    else:
        mins = int(zone[1:3]) * 60 + int(zone[4:6])
        tz = datetime.timezone(datetime.timedelta(minutes=mins if zone[0] == '+' else -mins))
    return datetime.datetime(int(y), int(mo), int(d), int(h), int(mi), int(s), us, tzinfo=tz)


def seconds_between(a: datetime.datetime, b: datetime.datetime) -> Fraction:
    """b - a as an exact Fraction of seconds."""
    delta = b - a
    return Fraction(delta.days * 86400 + delta.seconds) + Fraction(delta.microseconds, 10**6)


@dataclass
class TimelineEntry:
    t: int
    d: int


@dataclass
class RepView:
    id: str
    bandwidth: int
    content_type: str
    mime_type: str
    codecs: str | None
    adaptation_set_id: str | None
    period_index: int
    base_url: str
    template: dict[str, str]                    # merged SegmentTemplate attributes
    timeline: list[TimelineEntry] | None         # expanded, or None
    timeline_raw: list[tuple[int | None, int, int]] | None
    segment_list: dict | None                    # {'init': (a,b), 'media': [(a,b)..], 'timescale', 'duration'}
    element: object = None
    adaptation_element: object = None

    @property
    def timescale(self) -> int:
        return int(self.template.get('timescale', '1'))

    @property
    def start_number(self) -> int:
        return int(self.template.get('startNumber', '1'))

    @property
    def duration(self) -> int | None:
        d = self.template.get('duration')
        return int(d) if d is not None else None

    @property
    def pto(self) -> int:
        return int(self.template.get('presentationTimeOffset', '0'))

    def uses_time(self) -> bool:
        return '$Time$' in self.template.get('media', '')

    def uses_number(self) -> bool:
        return bool(re.search(r'\$Number(%0\d+d)?\$', self.template.get('media', '')))

    def substitute(self, pattern: str, number: int | None = None, time: int | None = None) -> str:
        def repl(m: re.Match) -> str:
            name, fmt = m.group(1), m.group(2)
            if name == '':
                return '$'
            if name == 'RepresentationID':
                return self.id
            if name == 'Bandwidth':
                val = self.bandwidth
            elif name == 'Number':
                if number is None:
                    raise MpdError('$Number$ in a pattern without a number')
                val = number
            elif name == 'Time':
                if time is None:
                    raise MpdError('$Time$ in a pattern without a time')
                val = time
            else:
                raise MpdError(f'unknown template identifier ${name}$')
            return (fmt % val) if fmt else str(val)
        return TEMPLATE_ID_RE.sub(repl, pattern)

    def init_url(self) -> str | None:
        p = self.template.get('initialization')
        if p is None:
            return None
        return urljoin(self.base_url, self.substitute(p))

    def media_url(self, number: int | None = None, time: int | None = None) -> str:
        return urljoin(self.base_url, self.substitute(self.template['media'], number, time))


@dataclass
class PeriodView:
    index: int
    id: str | None
    start: Fraction | None
    duration: Fraction | None
    reps: list[RepView] = field(default_factory=list)
    element: object = None


@dataclass
class MpdView:
    url: str
    root: object
    type: str
    attrs: dict[str, str]
    periods: list[PeriodView]

    def dt(self, name: str) -> datetime.datetime | None:
        v = self.attrs.get(name)
        return parse_datetime(v) if v is not None else None

    def dur(self, name: str) -> Fraction | None:
        v = self.attrs.get(name)
        return parse_duration(v) if v is not None else None

    def all_reps(self):
        for p in self.periods:
            yield from ((p, r) for r in p.reps)


def _base(current: str, elem) -> str:
    b = elem.find(Q + 'BaseURL')
    if b is not None and b.text:
        return urljoin(current, b.text.strip())
    return current


def _merge_template(inherited: dict, raw_tl, elem):
    st = elem.find(Q + 'SegmentTemplate')
    out = dict(inherited)
    tl = raw_tl
    if st is not None:
        for k, v in st.attrib.items():
            out[k] = v
        t = st.find(Q + 'SegmentTimeline')
        if t is not None:
            tl = []
            for s in t.findall(Q + 'S'):
                tt = s.get('t')
                tl.append((int(tt) if tt is not None else None, int(s.get('d')), int(s.get('r', '0'))))
    return out, tl


def expand_timeline(raw) -> list[TimelineEntry]:
    out: list[TimelineEntry] = []
    cur = 0
    for t, d, r in raw:
        if t is not None:
            cur = t
        if r < 0:
            raise MpdError('negative S@r is not produced by this service; not modelled')
        for _ in range(r + 1):
            out.append(TimelineEntry(cur, d))
            cur += d
    return out


def _segment_list(elem) -> dict | None:
    sl = elem.find(Q + 'SegmentList')
    if sl is None:
        return None

    def rng(text):
        a, b = text.split('-')
        return int(a), int(b)
    init = sl.find(Q + 'Initialization')
    return {
        'timescale': int(sl.get('timescale', '1')),
        'duration': int(sl.get('duration')) if sl.get('duration') else None,
        'init': rng(init.get('range')) if init is not None and init.get('range') else None,
        'media': [rng(u.get('mediaRange')) for u in sl.findall(Q + 'SegmentURL') if u.get('mediaRange')],
    }


def parse_mpd(text: bytes | str, url: str) -> MpdView:
    if isinstance(text, str):
        text = text.encode('utf-8')
    parser = etree.XMLParser(resolve_entities=False, no_network=True, remove_comments=False)
    root = etree.fromstring(text, parser)
    if root.tag != Q + 'MPD':
        raise MpdError(f'root element is {root.tag}')
    mpd_base = _base(url, root)
    periods: list[PeriodView] = []
    for pi, pe in enumerate(root.findall(Q + 'Period')):
        pbase = _base(mpd_base, pe)
        ptmpl, ptl = _merge_template({}, None, pe)
        pv = PeriodView(
            index=pi, id=pe.get('id'),
            start=parse_duration(pe.get('start')) if pe.get('start') is not None else None,
            duration=parse_duration(pe.get('duration')) if pe.get('duration') is not None else None,
            element=pe)
        for ae in pe.findall(Q + 'AdaptationSet'):
            abase = _base(pbase, ae)
            atmpl, atl = _merge_template(ptmpl, ptl, ae)
            for re_ in ae.findall(Q + 'Representation'):
                rbase = _base(abase, re_)
                rtmpl, rtl = _merge_template(atmpl, atl, re_)
                mime = re_.get('mimeType') or ae.get('mimeType') or ''
                ctype = ae.get('contentType') or (mime.split('/')[0] if mime else '')
                if ctype == 'application':
                    ctype = 'text'
                pv.reps.append(RepView(
                    id=re_.get('id'), bandwidth=int(re_.get('bandwidth', '0')),
                    content_type=ctype, mime_type=mime,
                    codecs=re_.get('codecs') or ae.get('codecs'),
                    adaptation_set_id=ae.get('id'), period_index=pi, base_url=rbase,
                    template=rtmpl,
                    timeline=expand_timeline(rtl) if rtl is not None else None,
                    timeline_raw=rtl,
                    segment_list=_segment_list(re_) or _segment_list(ae),
                    element=re_, adaptation_element=ae))
        periods.append(pv)
    return MpdView(url=url, root=root, type=root.get('type', 'static'),
                   attrs=dict(root.attrib), periods=periods)


# ---------------------------------------------------------------- availability model
@dataclass
class Addressable:
    number: int | None
    time: int | None
    duration: int | None          # ticks (S@d or @duration)
    url: str
    kind: str                     # 'time' | 'number'


def period_start(mpd: MpdView, p: PeriodView) -> Fraction:
    if p.start is not None:
        return p.start
    # 5.3.2.1: start of previous + duration of previous, or 0 for the first of a static MPD
    if p.index == 0:
        return Fraction(0)
    prev = mpd.periods[p.index - 1]
    return period_start(mpd, prev) + (prev.duration or Fraction(0))


def live_addressable(mpd: MpdView, p: PeriodView, r: RepView, now: datetime.datetime,
                     max_numbers: int = 4000) -> list[Addressable]:
    """Segments the document makes addressable at `now` (dynamic MPD), from the document alone."""
    ast = mpd.dt('availabilityStartTime')
    if ast is None:
        raise MpdError('dynamic MPD without availabilityStartTime')
    tsbd = mpd.dur('timeShiftBufferDepth')
    elapsed = seconds_between(ast, now) - period_start(mpd, p)   # time since period start
    ts = r.timescale
    out: list[Addressable] = []
    p_end = None
    if p.duration is not None:
        p_end = p.duration
    if r.timeline is not None:
        for e in r.timeline:
            # entry end relative to the period start
            end = Fraction(e.t + e.d - r.pto, ts)
            if end <= elapsed:
                if r.uses_time():
                    out.append(Addressable(None, e.t, e.d, r.media_url(time=e.t), 'time'))
                else:
                    # $Number$ with a timeline: numbers count entries from startNumber
                    n = r.start_number + len(out)
                    out.append(Addressable(n, e.t, e.d, r.media_url(number=n, time=e.t), 'number'))
        return out
    dur = r.duration
    if dur is None or not r.uses_number():
        return out
    d = Fraction(dur, ts)
    # availability window of number n (k = n - startNumber):
    #   [ (k+1)*d , (k+2)*d + tsbd ]   relative to AST+PeriodStart
    # contains elapsed  <=>  (elapsed - tsbd)/d - 2 <= k <= elapsed/d - 1
    k_hi = (elapsed / d) - 1
    k_hi = k_hi.numerator // k_hi.denominator          # floor
    if tsbd is None:
        k_lo = 0
    else:
        lo = (elapsed - tsbd) / d - 2
        k_lo = -((-lo.numerator) // lo.denominator)     # ceil
    k_lo = max(0, k_lo)
    if p_end is not None:
        last = (p_end / d)
        last_k = -((-last.numerator) // last.denominator) - 1
        k_hi = min(k_hi, last_k)
    if k_hi - k_lo > max_numbers:
        k_lo = k_hi - max_numbers
    for k in range(k_lo, k_hi + 1):
        n = r.start_number + k
        out.append(Addressable(n, None, dur, r.media_url(number=n), 'number'))
    return out
