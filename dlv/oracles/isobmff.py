"""Independent ISO-BMFF (ISO/IEC 14496-12, 23001-7, 23009-1 emsg) walker.

Shares no code with dashlive.  Parses only with struct and the box syntax of the
specifications.  Used as the oracle that reads bytes served by the real service.
"""
from __future__ import annotations

import struct
from dataclasses import dataclass, field

CONTAINERS = {
    b'moov', b'trak', b'mdia', b'minf', b'stbl', b'mvex', b'moof', b'traf', b'edts', b'dinf',
    b'sinf', b'schi', b'udta', b'mfra',
}
# sample entries: header bytes before child boxes
VISUAL = {b'avc1', b'avc3', b'hev1', b'hvc1', b'encv'}
AUDIO = {b'mp4a', b'ec-3', b'ac-3', b'enca'}
PIFF_SENC_UUID = bytes.fromhex('a2394f525a9b4f14a2446c427c648df4')


class BoxError(Exception):
    pass


@dataclass
class Box:
    type: bytes
    start: int          # absolute offset in the buffer of the size field
    size: int           # total size including header
    header: int         # header length (8, 16, or +16 for uuid)
    usertype: bytes | None = None
    children: list['Box'] = field(default_factory=list)
    parent: 'Box | None' = None

    @property
    def end(self) -> int:
        return self.start + self.size

    @property
    def body(self) -> int:
        return self.start + self.header

    def name(self) -> str:
        return self.type.decode('latin-1')

    def find(self, *path: bytes) -> 'Box | None':
        cur: Box | None = self
        for p in path:
            nxt = None
            for c in cur.children:
                if c.type == p:
                    nxt = c
                    break
            if nxt is None:
                return None
            cur = nxt
        return cur

    def find_all(self, typ: bytes) -> list['Box']:
        return [c for c in self.children if c.type == typ]

    def walk(self):
        yield self
        for c in self.children:
            yield from c.walk()


def parse_header(buf: bytes, pos: int, limit: int) -> Box:
    if pos + 8 > limit:
        raise BoxError(f'truncated box header at {pos} (limit {limit})')
    size, typ = struct.unpack_from('>I4s', buf, pos)
    header = 8
    if size == 1:
        if pos + 16 > limit:
            raise BoxError(f'truncated 64-bit box header at {pos}')
        size = struct.unpack_from('>Q', buf, pos + 8)[0]
        header = 16
    elif size == 0:
        size = limit - pos
    usertype = None
    if typ == b'uuid':
        if pos + header + 16 > limit:
            raise BoxError(f'truncated uuid header at {pos}')
        usertype = bytes(buf[pos + header:pos + header + 16])
        header += 16
    if size < header:
        raise BoxError(f'box {typ!r} at {pos}: size {size} smaller than its header {header}')
    if pos + size > limit:
        raise BoxError(f'box {typ!r} at {pos}: size {size} exceeds its container (limit {limit})')
    return Box(type=bytes(typ), start=pos, size=size, header=header, usertype=usertype)


def child_area(buf: bytes, box: Box) -> int | None:
    """Returns the offset where child boxes start, or None when the box is a leaf."""
    t = box.type
    if t in CONTAINERS:
        return box.body
    if t == b'stsd':
        return box.body + 8
    if t == b'meta':
        return box.body + 4
    if t in VISUAL:
        return box.body + 78
    if t in AUDIO:
        # AudioSampleEntry version 0: 28 bytes; QuickTime v1 adds 16
        version = struct.unpack_from('>H', buf, box.body + 8)[0] if box.size >= box.header + 10 else 0
        return box.body + 28 + (16 if version == 1 else 0)
    if t in (b'stpp', b'wvtt'):
        if t == b'wvtt':
            return box.body + 8
        # XMLSubtitleSampleEntry: 8 bytes + three null-terminated strings
        p = box.body + 8
        for _ in range(3):
            try:
                p = buf.index(b'\0', p, box.end) + 1
            except ValueError:
                return None
        return p
    return None


def parse_boxes(buf: bytes, start: int = 0, end: int | None = None, parent: Box | None = None,
                depth: int = 0) -> list[Box]:
    """Parse a well-nested sequence of boxes filling [start, end) exactly."""
    if end is None:
        end = len(buf)
    out: list[Box] = []
    pos = start
    while pos < end:
        b = parse_header(buf, pos, end)
        b.parent = parent
        ca = child_area(buf, b)
        if ca is not None and depth < 16:
            if ca > b.end:
                raise BoxError(f'box {b.type!r} at {b.start}: fixed fields exceed box size')
            b.children = parse_boxes(buf, ca, b.end, b, depth + 1)
        out.append(b)
        pos = b.end
    if pos != end:
        raise BoxError(f'children end at {pos}, container ends at {end}')
    return out


def parse_file(buf: bytes) -> Box:
    root = Box(type=b'root', start=0, size=len(buf), header=0)
    root.children = parse_boxes(buf, 0, len(buf), root)
    return root


# ---------------------------------------------------------------- field readers
def fullbox(buf: bytes, b: Box) -> tuple[int, int, int]:
    if b.size < b.header + 4:
        raise BoxError(f'{b.type!r}: too short for FullBox')
    vf = struct.unpack_from('>I', buf, b.body)[0]
    return vf >> 24, vf & 0xFFFFFF, b.body + 4


def read_mfhd(buf, b) -> int:
    _, _, p = fullbox(buf, b)
    return struct.unpack_from('>I', buf, p)[0]


def read_tfdt(buf, b) -> tuple[int, int]:
    v, _, p = fullbox(buf, b)
    if v == 1:
        if b.size != b.header + 12:
            raise BoxError(f'tfdt v1 size {b.size}')
        return v, struct.unpack_from('>Q', buf, p)[0]
    if b.size != b.header + 8:
        raise BoxError(f'tfdt v{v} size {b.size}')
    return v, struct.unpack_from('>I', buf, p)[0]


def read_tfhd(buf, b) -> dict:
    _, flags, p = fullbox(buf, b)
    rv = {'flags': flags, 'track_id': struct.unpack_from('>I', buf, p)[0]}
    p += 4
    for bit, name, fmt in ((0x1, 'base_data_offset', '>Q'), (0x2, 'sample_description_index', '>I'),
                           (0x8, 'default_sample_duration', '>I'), (0x10, 'default_sample_size', '>I'),
                           (0x20, 'default_sample_flags', '>I')):
        if flags & bit:
            rv[name] = struct.unpack_from(fmt, buf, p)[0]
            p += struct.calcsize(fmt)
    rv['duration_is_empty'] = bool(flags & 0x10000)
    rv['default_base_is_moof'] = bool(flags & 0x20000)
    if p != b.end:
        raise BoxError(f'tfhd: fields end at {p}, box ends at {b.end}')
    return rv


def read_trun(buf, b) -> dict:
    v, flags, p = fullbox(buf, b)
    count = struct.unpack_from('>I', buf, p)[0]
    p += 4
    rv: dict = {'version': v, 'flags': flags, 'sample_count': count, 'samples': []}
    if flags & 0x1:
        rv['data_offset'] = struct.unpack_from('>i', buf, p)[0]
        p += 4
    if flags & 0x4:
        rv['first_sample_flags'] = struct.unpack_from('>I', buf, p)[0]
        p += 4
    per = sum(4 for bit in (0x100, 0x200, 0x400, 0x800) if flags & bit)
    if p + per * count != b.end:
        raise BoxError(f'trun: {count} samples x {per} bytes from {p} != box end {b.end}')
    for _ in range(count):
        s = {}
        if flags & 0x100:
            s['duration'] = struct.unpack_from('>I', buf, p)[0]
            p += 4
        if flags & 0x200:
            s['size'] = struct.unpack_from('>I', buf, p)[0]
            p += 4
        if flags & 0x400:
            s['flags'] = struct.unpack_from('>I', buf, p)[0]
            p += 4
        if flags & 0x800:
            s['cto'] = struct.unpack_from('>i' if v else '>I', buf, p)[0]
            p += 4
        rv['samples'].append(s)
    return rv


def read_trex(buf, b) -> dict:
    _, _, p = fullbox(buf, b)
    t, sdi, dur, size, flags = struct.unpack_from('>IIIII', buf, p)
    return {'track_id': t, 'default_sample_description_index': sdi, 'default_sample_duration': dur,
            'default_sample_size': size, 'default_sample_flags': flags}


def read_mdhd(buf, b) -> dict:
    v, _, p = fullbox(buf, b)
    if v == 1:
        c, m, ts, dur = struct.unpack_from('>QQIQ', buf, p)
    else:
        c, m, ts, dur = struct.unpack_from('>IIII', buf, p)
    return {'timescale': ts, 'duration': dur}


def read_tkhd(buf, b) -> dict:
    v, _, p = fullbox(buf, b)
    if v == 1:
        tid = struct.unpack_from('>I', buf, p + 16)[0]
    else:
        tid = struct.unpack_from('>I', buf, p + 8)[0]
    return {'track_id': tid}


def read_saiz(buf, b) -> dict:
    _, flags, p = fullbox(buf, b)
    if flags & 1:
        p += 8
    default_size, count = struct.unpack_from('>BI', buf, p)
    p += 5
    sizes = []
    if default_size == 0:
        sizes = list(buf[p:p + count])
        p += count
    if p != b.end:
        raise BoxError(f'saiz: fields end at {p}, box ends at {b.end}')
    return {'default_size': default_size, 'count': count, 'sizes': sizes}


def read_saio(buf, b) -> dict:
    v, flags, p = fullbox(buf, b)
    if flags & 1:
        p += 8
    count = struct.unpack_from('>I', buf, p)[0]
    p += 4
    offs = []
    for _ in range(count):
        if v == 0:
            offs.append(struct.unpack_from('>I', buf, p)[0])
            p += 4
        else:
            offs.append(struct.unpack_from('>Q', buf, p)[0])
            p += 8
    if p != b.end:
        raise BoxError(f'saio: fields end at {p}, box ends at {b.end}')
    return {'version': v, 'offsets': offs}


def read_senc(buf, b, iv_size: int, piff: bool = False) -> dict:
    """senc (or PIFF uuid SampleEncryptionBox).  Returns the absolute offset of the first
    sample entry and per-sample (iv, subsamples)."""
    _, flags, p = fullbox(buf, b)
    if flags & 1:
        # AlgorithmID(3) IV_size(1) KID(16): PIFF, and the first edition of 23001-7 for senc too
        iv_size = buf[p + 3] or iv_size
        p += 20
    count = struct.unpack_from('>I', buf, p)[0]
    p += 4
    first = p
    samples = []
    for _ in range(count):
        if p + iv_size > b.end:
            raise BoxError('senc: sample IV beyond box end')
        iv = bytes(buf[p:p + iv_size])
        p += iv_size
        subs = []
        if flags & 2:
            n = struct.unpack_from('>H', buf, p)[0]
            p += 2
            for _ in range(n):
                clear, enc = struct.unpack_from('>HI', buf, p)
                p += 6
                subs.append((clear, enc))
        samples.append({'iv': iv, 'subsamples': subs})
    if p != b.end:
        raise BoxError(f'senc: {count} samples end at {p}, box ends at {b.end}')
    return {'flags': flags, 'count': count, 'first_entry': first, 'samples': samples,
            'entry_sizes': [iv_size + (2 + 6 * len(s['subsamples']) if flags & 2 else 0) for s in samples]}


def read_tenc(buf, b) -> dict:
    v, _, p = fullbox(buf, b)
    # reserved(1) [reserved or crypt/skip](1) isProtected(1) Per_Sample_IV_Size(1) KID(16)
    is_protected, iv_size = struct.unpack_from('>BB', buf, p + 2)
    kid = bytes(buf[p + 4:p + 20])
    return {'is_protected': is_protected, 'iv_size': iv_size, 'kid': kid}


def read_pssh(buf, b) -> dict:
    v, _, p = fullbox(buf, b)
    system_id = bytes(buf[p:p + 16])
    p += 16
    kids = []
    if v > 0:
        n = struct.unpack_from('>I', buf, p)[0]
        p += 4
        for _ in range(n):
            kids.append(bytes(buf[p:p + 16]))
            p += 16
    dsize = struct.unpack_from('>I', buf, p)[0]
    p += 4
    data = bytes(buf[p:p + dsize])
    p += dsize
    if p != b.end:
        raise BoxError(f'pssh: fields end at {p}, box ends at {b.end}')
    return {'version': v, 'system_id': system_id, 'kids': kids, 'data': data}


def read_cstring(buf, p, end) -> tuple[bytes, int]:
    q = buf.index(b'\0', p, end)
    return bytes(buf[p:q]), q + 1


def read_emsg(buf, b) -> dict:
    v, _, p = fullbox(buf, b)
    rv: dict = {'version': v}
    if v == 0:
        rv['scheme_id_uri'], p = read_cstring(buf, p, b.end)
        rv['value'], p = read_cstring(buf, p, b.end)
        ts, delta, dur, eid = struct.unpack_from('>IIII', buf, p)
        p += 16
        rv.update(timescale=ts, presentation_time_delta=delta, event_duration=dur, id=eid)
    elif v == 1:
        ts, pt, dur, eid = struct.unpack_from('>IQII', buf, p)
        p += 20
        rv.update(timescale=ts, presentation_time=pt, event_duration=dur, id=eid)
        rv['scheme_id_uri'], p = read_cstring(buf, p, b.end)
        rv['value'], p = read_cstring(buf, p, b.end)
    else:
        raise BoxError(f'emsg version {v}')
    rv['data'] = bytes(buf[p:b.end])
    return rv


def read_sidx(buf, b) -> dict:
    v, _, p = fullbox(buf, b)
    ref_id, ts = struct.unpack_from('>II', buf, p)
    p += 8
    if v == 0:
        ept, first = struct.unpack_from('>II', buf, p)
        p += 8
    else:
        ept, first = struct.unpack_from('>QQ', buf, p)
        p += 16
    _, count = struct.unpack_from('>HH', buf, p)
    return {'timescale': ts, 'earliest_presentation_time': ept, 'first_offset': first, 'count': count}


# ---------------------------------------------------------------- segment-level views
@dataclass
class FragmentInfo:
    """What the oracle reads from one media segment (bytes [0,len))."""
    boxes: list[Box]
    moof: Box
    mdat: Box
    sequence_number: int
    track_id: int
    tfhd: dict
    tfdt: tuple[int, int] | None      # (version, value)
    trun: dict
    emsg: list[dict]
    has_sidx: bool
    saiz: dict | None
    saio: dict | None
    senc_box: Box | None
    piff_senc_box: Box | None
    top_types: list[str]
    traf_types: list[str]


def read_fragment(buf: bytes) -> FragmentInfo:
    root = parse_file(buf)
    tops = root.children
    moofs = [b for b in tops if b.type == b'moof']
    mdats = [b for b in tops if b.type == b'mdat']
    if len(moofs) != 1 or len(mdats) != 1:
        raise BoxError(f'expected one moof and one mdat, got {[b.name() for b in tops]}')
    moof, mdat = moofs[0], mdats[0]
    mfhd = moof.find(b'mfhd')
    trafs = moof.find_all(b'traf')
    if mfhd is None or len(trafs) != 1:
        raise BoxError('moof without mfhd or with != 1 traf')
    traf = trafs[0]
    tfhd_b = traf.find(b'tfhd')
    trun_b = traf.find(b'trun')
    if tfhd_b is None or trun_b is None:
        raise BoxError('traf without tfhd/trun')
    tfdt_b = traf.find(b'tfdt')
    saiz_b, saio_b, senc_b = traf.find(b'saiz'), traf.find(b'saio'), traf.find(b'senc')
    piff = None
    for c in traf.children:
        if c.type == b'uuid' and c.usertype == PIFF_SENC_UUID:
            piff = c
    return FragmentInfo(
        boxes=tops, moof=moof, mdat=mdat,
        sequence_number=read_mfhd(buf, mfhd),
        track_id=read_tfhd(buf, tfhd_b)['track_id'],
        tfhd=read_tfhd(buf, tfhd_b),
        tfdt=read_tfdt(buf, tfdt_b) if tfdt_b is not None else None,
        trun=read_trun(buf, trun_b),
        emsg=[read_emsg(buf, b) for b in tops if b.type == b'emsg'],
        has_sidx=any(b.type == b'sidx' for b in tops),
        saiz=read_saiz(buf, saiz_b) if saiz_b is not None else None,
        saio=read_saio(buf, saio_b) if saio_b is not None else None,
        senc_box=senc_b, piff_senc_box=piff,
        top_types=[b.name() for b in tops],
        traf_types=[c.name() for c in traf.children],
    )


def sample_durations(trun: dict, tfhd: dict, trex: dict | None) -> list[int]:
    out = []
    for s in trun['samples']:
        if 'duration' in s:
            out.append(s['duration'])
        elif 'default_sample_duration' in tfhd:
            out.append(tfhd['default_sample_duration'])
        elif trex is not None:
            out.append(trex['default_sample_duration'])
        else:
            raise BoxError('no sample duration available')
    return out


def sample_sizes(trun: dict, tfhd: dict, trex: dict | None) -> list[int]:
    out = []
    for s in trun['samples']:
        if 'size' in s:
            out.append(s['size'])
        elif 'default_sample_size' in tfhd:
            out.append(tfhd['default_sample_size'])
        elif trex is not None:
            out.append(trex['default_sample_size'])
        else:
            raise BoxError('no sample size available')
    return out


def data_base(frag: FragmentInfo) -> int:
    """Base for trun.data_offset (14496-12 8.8.7): explicit base_data_offset, else the
    start of the enclosing moof (default-base-is-moof, or first traf in the moof)."""
    if 'base_data_offset' in frag.tfhd:
        return frag.tfhd['base_data_offset']
    return frag.moof.start


@dataclass
class StoredSegment:
    start: int
    end: int          # exclusive
    moof_start: int
    mdat_payload: tuple[int, int]
    tfdt: int | None
    duration: int
    sequence_number: int
    first_box: str


@dataclass
class StoredFile:
    """The oracle's own index of a stored fragmented MP4 file."""
    init_end: int
    timescale: int
    track_id: int
    trex: dict | None
    has_mehd: bool
    segments: list[StoredSegment]
    tenc: dict | None
    handler: bytes
    init_boxes: list[Box]

    @property
    def duration(self) -> int:
        return sum(s.duration for s in self.segments)


def index_file(buf: bytes) -> StoredFile:
    root = parse_file(buf)
    tops = root.children
    moov = root.find(b'moov')
    if moov is None:
        raise BoxError('no moov')
    mdhd = moov.find(b'trak', b'mdia', b'mdhd')
    tkhd = moov.find(b'trak', b'tkhd')
    hdlr = moov.find(b'trak', b'mdia', b'hdlr')
    trex_b = moov.find(b'mvex', b'trex')
    trex = read_trex(buf, trex_b) if trex_b is not None else None
    tenc = None
    for b in moov.walk():
        if b.type == b'tenc':
            tenc = read_tenc(buf, b)
    # init segment = everything up to and including moov
    init_end = moov.end
    segs: list[StoredSegment] = []
    cur_start = None
    pending_first = None
    i = 0
    after_init = [b for b in tops if b.start >= init_end]
    idx = 0
    while idx < len(after_init):
        b = after_init[idx]
        if cur_start is None:
            cur_start = b.start
            pending_first = b.name()
        if b.type == b'moof':
            # find following mdat
            j = idx + 1
            while j < len(after_init) and after_init[j].type != b'mdat':
                j += 1
            if j >= len(after_init):
                raise BoxError('moof without mdat')
            mdat = after_init[j]
            traf = b.find(b'traf')
            tfhd = read_tfhd(buf, traf.find(b'tfhd'))
            trun = read_trun(buf, traf.find(b'trun'))
            tfdt_b = traf.find(b'tfdt')
            durs = sample_durations(trun, tfhd, trex)
            segs.append(StoredSegment(
                start=cur_start, end=mdat.end, moof_start=b.start,
                mdat_payload=(mdat.body, mdat.end),
                tfdt=read_tfdt(buf, tfdt_b)[1] if tfdt_b is not None else None,
                duration=sum(durs), sequence_number=read_mfhd(buf, b.find(b'mfhd')),
                first_box=pending_first))
            cur_start = None
            idx = j + 1
            continue
        idx += 1
    return StoredFile(
        init_end=init_end,
        timescale=read_mdhd(buf, mdhd)['timescale'],
        track_id=read_tkhd(buf, tkhd)['track_id'],
        trex=trex,
        has_mehd=moov.find(b'mvex', b'mehd') is not None,
        segments=segs, tenc=tenc,
        handler=bytes(buf[hdlr.body + 8:hdlr.body + 12]) if hdlr is not None else b'',
        init_boxes=[b for b in tops if b.start < init_end])
