"""Structural and lexical MPD rules written from ISO/IEC 23009-1 (not from the repository's
validator).  check(root) -> list of (mechanism, message)."""
from __future__ import annotations

import re

from lxml import etree

NS = 'urn:mpeg:dash:schema:mpd:2011'
Q = '{%s}' % NS
PATCH_NS = 'urn:mpeg:dash:schema:mpd-patch:2020'

XS_DURATION = re.compile(
    r'^(-)?P(?:(\d+)Y)?(?:(\d+)M)?(?:(\d+)D)?(?:T(?:(\d+)H)?(?:(\d+)M)?(?:(\d+(?:\.\d+)?)S)?)?$')
XS_DATETIME = re.compile(
    r'^-?\d{4,}-(0[1-9]|1[0-2])-(0[1-9]|[12]\d|3[01])T([01]\d|2[0-3]):[0-5]\d:([0-5]\d)(\.\d+)?(Z|[+-](0\d|1[0-4]):[0-5]\d)?$')
UINT = re.compile(r'^\+?\d+$')
INT = re.compile(r'^[+-]?\d+$')
DOUBLE = re.compile(r'^[+-]?(\d+(\.\d*)?|\.\d+)([eE][+-]?\d+)?$')
TEMPLATE_ID = re.compile(r'\$([^$]*)\$')
ALLOWED_IDS = re.compile(r'^(RepresentationID|(Number|Time|Bandwidth)(%0\d+d)?)?$')

DURATION_ATTRS = {
    'MPD': ['mediaPresentationDuration', 'minimumUpdatePeriod', 'minBufferTime', 'timeShiftBufferDepth',
            'suggestedPresentationDelay', 'maxSegmentDuration', 'maxSubsegmentDuration'],
    'Period': ['start', 'duration'],
    'Patch': [],
}
DATETIME_ATTRS = {
    'MPD': ['availabilityStartTime', 'availabilityEndTime', 'publishTime'],
    'Patch': ['originalPublishTime', 'publishTime'],
}
UINT_ATTRS = {
    'SegmentTemplate': ['timescale', 'duration', 'startNumber', 'presentationTimeOffset', 'endNumber'],
    'SegmentList': ['timescale', 'duration', 'startNumber', 'presentationTimeOffset'],
    'SegmentBase': ['timescale', 'presentationTimeOffset'],
    'S': ['t', 'd', 'n', 'k'],
    'Representation': ['bandwidth', 'width', 'height', 'audioSamplingRate', 'startWithSAP'],
    'AdaptationSet': ['id', 'group', 'minBandwidth', 'maxBandwidth', 'minWidth', 'maxWidth', 'minHeight',
                      'maxHeight', 'width', 'height', 'startWithSAP', 'subsegmentStartsWithSAP'],
    'ContentComponent': ['id'],
    'EventStream': ['timescale', 'presentationTimeOffset'],
    'InbandEventStream': ['timescale', 'presentationTimeOffset'],
    'Event': ['presentationTime', 'duration', 'id'],
}
# any element (also unknown ones) carrying one of these attribute names must hold an unsigned integer
GENERIC_UINT = {'timescale', 'startNumber', 'bandwidth'}


def valid_duration(text: str) -> bool:
    t = text.strip()
    m = XS_DURATION.match(t)
    if not m or t in ('P', 'PT', '-P', '-PT') or t.endswith('T'):
        return False
    return True


def local(tag) -> str:
    if not isinstance(tag, str):
        return ''
    return tag.split('}')[-1]


def check(root) -> list[tuple[str, str]]:
    out: list[tuple[str, str]] = []
    name = local(root.tag)
    if name == 'Patch':
        return check_patch(root)
    if root.tag != Q + 'MPD':
        return [('root-element-not-mpd', f'{root.tag}')]
    mtype = root.get('type', 'static')
    if mtype not in ('static', 'dynamic'):
        out.append(('mpd-type-invalid', mtype))
    for req in ('profiles', 'minBufferTime'):
        if root.get(req) is None:
            out.append((f'mpd-required-attribute-missing-{req}', f'MPD@{req}'))
    if mtype == 'dynamic':
        for req in ('availabilityStartTime', 'publishTime'):
            if root.get(req) is None:
                out.append((f'mpd-required-attribute-missing-{req}', f'dynamic MPD without @{req}'))
    periods = root.findall(Q + 'Period')
    if not periods:
        out.append(('mpd-without-period', ''))
    if mtype == 'static' and root.get('mediaPresentationDuration') is None:
        if not periods or periods[-1].get('duration') is None:
            out.append(('mpd-required-attribute-missing',
                        'static MPD without mediaPresentationDuration and without a duration on its last Period'))
    for el in root.iter():
        if not isinstance(el.tag, str):
            continue
        n = local(el.tag)
        in_dash = el.tag.startswith(Q)
        for a in DURATION_ATTRS.get(n, []) if in_dash else []:
            v = el.get(a)
            if v is None:
                continue
            if not valid_duration(v):
                out.append(('duration-attribute-not-lexically-valid', f'{n}@{a}="{v}"'))
            elif v.strip().startswith('-'):
                out.append(('duration-attribute-negative', f'{n}@{a}="{v}"'))
        for a in DATETIME_ATTRS.get(n, []) if in_dash else []:
            v = el.get(a)
            if v is not None and not XS_DATETIME.match(v.strip()):
                out.append(('datetime-attribute-not-lexically-valid', f'{n}@{a}="{v}"'))
        for a in UINT_ATTRS.get(n, []) if in_dash else []:
            v = el.get(a)
            if v is not None and not UINT.match(v.strip()):
                out.append(('unsigned-integer-attribute-not-valid', f'{n}@{a}="{v}"'))
        if in_dash:
            for a in GENERIC_UINT:
                v = el.get(a)
                if v is not None and a not in UINT_ATTRS.get(n, []) and not UINT.match(v.strip()):
                    out.append(('unsigned-integer-attribute-not-valid', f'{n}@{a}="{v}"'))
        if in_dash and n == 'S':
            r = el.get('r')
            if r is not None and (not INT.match(r.strip()) or int(r) < -1):
                out.append(('unsigned-integer-attribute-not-valid', f'S@r="{r}"'))
            if el.get('d') is None:
                out.append(('mpd-required-attribute-missing', 'S without @d'))
        if in_dash and n == 'PatchLocation':
            v = el.get('ttl')
            if v is not None and (not DOUBLE.match(v.strip()) or float(v) < 0):
                out.append(('unsigned-integer-attribute-not-valid', f'PatchLocation@ttl="{v}"'))
        if in_dash and n in ('SegmentTemplate',):
            for a in ('media', 'initialization', 'index', 'bitstreamSwitching'):
                v = el.get(a)
                if v is None:
                    continue
                if v.count('$') % 2:
                    out.append(('url-template-identifier-invalid', f'{n}@{a}="{v}" has an unpaired $'))
                    continue
                for m in TEMPLATE_ID.finditer(v):
                    if not ALLOWED_IDS.match(m.group(1)):
                        out.append(('url-template-identifier-invalid', f'{n}@{a} uses ${m.group(1)}$'))
                if a == 'initialization' and re.search(r'\$(Number|Time)', v):
                    out.append(('url-template-identifier-invalid', f'{n}@initialization uses $Number$/$Time$'))
    # identifiers
    pids = [p.get('id') for p in periods if p.get('id') is not None]
    if len(pids) != len(set(pids)):
        out.append(('period-id-not-unique', f'{pids}'))
    if mtype == 'dynamic' and len(pids) != len(periods):
        out.append(('mpd-required-attribute-missing', 'dynamic MPD with a Period without @id'))
    for p in periods:
        aids = []
        rids = []
        for a in p.findall(Q + 'AdaptationSet'):
            if a.get('id') is not None:
                aids.append(a.get('id'))
            reps = a.findall(Q + 'Representation')
            if not reps:
                out.append(('adaptation-set-empty', f'Period {p.get("id")} AdaptationSet {a.get("id")} '
                                                    f'({a.get("contentType") or a.get("mimeType")})'))
            for r in reps:
                if r.get('id') is None:
                    out.append(('mpd-required-attribute-missing', 'Representation without @id'))
                else:
                    rids.append(r.get('id'))
                if r.get('bandwidth') is None:
                    out.append(('mpd-required-attribute-missing', f'Representation {r.get("id")} without @bandwidth'))
        if len(aids) != len(set(aids)):
            out.append(('adaptation-set-id-not-unique', f'Period {p.get("id")}: {aids}'))
        if len(rids) != len(set(rids)):
            out.append(('representation-id-not-unique', f'Period {p.get("id")}: {rids}'))
    return out


def check_patch(root) -> list[tuple[str, str]]:
    out = []
    if root.tag != '{%s}Patch' % PATCH_NS:
        out.append(('patch-root-namespace-wrong', f'{root.tag}'))
    for req in ('mpdId', 'originalPublishTime', 'publishTime'):
        if root.get(req) is None:
            out.append(('patch-required-attribute-missing', f'Patch@{req}'))
    for a in DATETIME_ATTRS['Patch']:
        v = root.get(a)
        if v is not None and not XS_DATETIME.match(v.strip()):
            out.append(('datetime-attribute-not-lexically-valid', f'Patch@{a}="{v}"'))
    for el in root.iter():
        if not isinstance(el.tag, str):
            continue
        n = local(el.tag)
        if n == 'S':
            for a in ('t', 'd'):
                v = el.get(a)
                if v is not None and not UINT.match(v.strip()):
                    out.append(('unsigned-integer-attribute-not-valid', f'S@{a}="{v}"'))
        if n in ('replace', 'add', 'remove') and el.get('sel') is None:
            out.append(('patch-operation-without-sel', n))
    return out


def skeleton(root) -> list:
    """Element tree shape: nested [tag, sorted attribute names, children...] ignoring text."""
    def rec(el):
        if not isinstance(el.tag, str):
            return None
        kids = [k for k in (rec(c) for c in el) if k is not None]
        return [el.tag, sorted(el.attrib.keys()), kids]
    return rec(root)


def parse(data: bytes):
    parser = etree.XMLParser(resolve_entities=False, no_network=True, huge_tree=False)
    return etree.fromstring(data, parser)
