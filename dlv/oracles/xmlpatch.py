"""Minimal RFC 5261 XML patch application (the subset MPD patches use):
<replace sel="..."> on an attribute (/a/b/@x) or on an element selected by a path of
name[n] / name[@id='v'] steps.  Names are matched by local name.  Independent of dashlive."""
from __future__ import annotations

import copy
import re

from lxml import etree

STEP = re.compile(r"^(?P<name>[\w.-]+)(?:\[(?:(?P<idx>\d+)|@(?P<attr>[\w:.-]+)=(?P<q>['\"])(?P<val>.*?)(?P=q))\])?$")


class PatchError(Exception):
    pass


def local(tag) -> str:
    return tag.split('}')[-1] if isinstance(tag, str) else ''


def select(root, sel: str):
    """-> ('attr', element, name) | ('elem', element)"""
    if not sel.startswith('/'):
        raise PatchError(f'relative selector {sel!r}')
    steps = sel.strip('/').split('/')
    if local(root.tag) != STEP.match(steps[0]).group('name'):
        raise PatchError(f'root step {steps[0]!r} does not match {local(root.tag)}')
    cur = root
    for i, step in enumerate(steps[1:], start=1):
        if step.startswith('@'):
            if i != len(steps) - 1:
                raise PatchError('attribute step must be last')
            if cur.get(step[1:]) is None:
                raise PatchError(f'attribute {step} not present')
            return ('attr', cur, step[1:])
        m = STEP.match(step)
        if not m:
            raise PatchError(f'unsupported step {step!r}')
        kids = [c for c in cur if local(c.tag) == m.group('name')]
        if m.group('attr'):
            kids = [c for c in kids if c.get(m.group('attr')) == m.group('val')]
            if len(kids) != 1:
                raise PatchError(f'step {step!r} selects {len(kids)} nodes')
            cur = kids[0]
        else:
            idx = int(m.group('idx') or 1)
            if m.group('idx') is None and len(kids) != 1:
                raise PatchError(f'step {step!r} selects {len(kids)} nodes')
            if idx < 1 or idx > len(kids):
                raise PatchError(f'step {step!r}: index out of range ({len(kids)} candidates)')
            cur = kids[idx - 1]
    return ('elem', cur)


def rebuild(node, src_ns, dst_ns):
    q = etree.QName(node.tag)
    ns = dst_ns if q.namespace == src_ns else q.namespace
    tag = ('{%s}%s' % (ns, q.localname)) if ns else q.localname
    out = etree.Element(tag, dict(node.attrib))
    out.text = node.text
    out.tail = node.tail
    for child in node:
        if isinstance(child.tag, str):
            out.append(rebuild(child, src_ns, dst_ns))
    return out


def apply(doc_root, patch_root):
    """Returns a patched deep copy of doc_root."""
    out = copy.deepcopy(doc_root)
    for op in patch_root:
        if not isinstance(op.tag, str):
            continue
        name = local(op.tag)
        if name != 'replace':
            raise PatchError(f'operation {name} not modelled')
        target = select(out, op.get('sel'))
        if target[0] == 'attr':
            target[1].set(target[2], (op.text or '').strip())
        else:
            new = [c for c in op if isinstance(c.tag, str)]
            if len(new) != 1:
                raise PatchError(f'replace of an element with {len(new)} elements')
            el = target[1]
            parent = el.getparent()
            if parent is None:
                raise PatchError('cannot replace the root')
            # unprefixed content of a DASH patch names MPD elements: rebuild it in the namespace
            # of the element it replaces (fresh elements, so that no namespace declaration of
            # the patch document is carried over)
            repl = rebuild(new[0], etree.QName(op.tag).namespace, etree.QName(el.tag).namespace)
            repl.tail = el.tail
            parent.replace(el, repl)
    return out
