"""RFC 7233 single byte-range model (independent of dashlive)."""
from __future__ import annotations

import re

_SPEC = re.compile(r'^(?:(\d+)-(\d*)|-(\d+))$')


def classify(header: str | None, length: int):
    """-> ('absent',) | ('invalid', why) | ('unsat',) | ('sat', first, last)

    'invalid' = not a single RFC 7233 byte-range (malformed, other unit, several ranges,
    last < first).  Digits only (no sign, no inner whitespace); the unit is case-insensitive;
    optional whitespace around the whole value is removed as HTTP field parsing does.
    """
    if header is None:
        return ('absent',)
    value = header.strip(' \t')
    m = re.match(r'^([A-Za-z0-9!#$%&\'*+.^_`|~-]+)=(.*)$', value, re.S)
    if not m:
        return ('invalid', 'no unit')
    unit, rest = m.group(1), m.group(2)
    if unit.lower() != 'bytes':
        return ('invalid', 'other unit')
    if ',' in rest:
        return ('invalid', 'several ranges')
    s = _SPEC.match(rest)
    if not s:
        return ('invalid', 'malformed')
    first, last, suffix = s.groups()
    if suffix is not None:
        n = int(suffix)
        if n == 0 or length == 0:
            return ('unsat',)
        n = min(n, length)
        return ('sat', length - n, length - 1)
    a = int(first)
    if last != '':
        b = int(last)
        if b < a:
            return ('invalid', 'last < first')
    else:
        b = length - 1
    if a >= length:
        return ('unsat',)
    return ('sat', a, min(b, length - 1))


CONTENT_RANGE = re.compile(r'^bytes (\d+)-(\d+)/(\d+)$')
CONTENT_RANGE_UNSAT = re.compile(r'^bytes \*/(\d+)$')


def judge(header: str | None, full: bytes, status: int, content_range: str | None, body: bytes,
          range_mandatory: bool = False):
    """Compare one observed response with the model.  Returns None when it conforms, else
    (mechanism, message)."""
    length = len(full)
    verdict = classify(header, length)
    if status >= 500:
        return ('range-5xx', f'Range {header!r} -> {status}')
    kind = verdict[0]

    def consistent_2xx():
        """served although not required: body/Content-Range must agree with the full body"""
        if status == 200:
            if body != full:
                return ('range-200-body-not-full', f'Range {header!r} -> 200 with {len(body)} of {length} bytes')
            return None
        if status == 206:
            m = CONTENT_RANGE.match(content_range or '')
            if not m:
                return ('range-206-bad-content-range', f'Range {header!r} -> 206 Content-Range {content_range!r}')
            a, b, total = map(int, m.groups())
            if total != length or b >= length or a > b or body != full[a:b + 1]:
                return ('range-206-inconsistent', f'Range {header!r} -> 206 {content_range!r} body {len(body)} bytes')
            return None
        return ('range-unexpected-status', f'Range {header!r} -> {status}')

    if kind == 'absent':
        if range_mandatory:
            if status == 400:
                return None
            return ('range-absent-not-refused', f'no Range on a range-only resource -> {status}')
        if status != 200 or body != full:
            return ('range-absent-not-full-body', f'no Range -> {status} with {len(body)} of {length} bytes')
        return None
    if kind == 'invalid':
        if status == 400:
            return None
        if status == 416:   # refusal with the unsatisfiable form is accepted for any invalid header
            m = CONTENT_RANGE_UNSAT.match(content_range or '')
            if m and int(m.group(1)) == length:
                return None
            return ('range-416-bad-content-range', f'Range {header!r} -> 416 Content-Range {content_range!r}')
        if status in (200, 206):
            return consistent_2xx()
        return ('range-invalid-header-unexpected-status', f'Range {header!r} ({verdict[1]}) -> {status}')
    if kind == 'unsat':
        if status != 416:
            return ('range-unsatisfiable-not-416', f'Range {header!r} (length {length}) -> {status} {content_range!r}')
        m = CONTENT_RANGE_UNSAT.match(content_range or '')
        if not m or int(m.group(1)) != length:
            return ('range-416-bad-content-range', f'Range {header!r} -> 416 Content-Range {content_range!r}')
        return None
    _, a, b = verdict
    cls = shape(header, length)
    if status != 206:
        whole = (a == 0 and b == length - 1)
        if whole and status == 200 and body == full:
            return None
        return (f'range-satisfiable-not-206-{cls}',
                f'Range {header!r} (length {length}) expected 206 bytes {a}-{b}/{length}, got {status} {content_range!r}')
    want = f'bytes {a}-{b}/{length}'
    if content_range != want or body != full[a:b + 1]:
        return (f'range-206-wrong-{cls}',
                f'Range {header!r} (length {length}) expected {want} ({b - a + 1} bytes), '
                f'got {content_range!r} ({len(body)} bytes)')
    return None


def shape(header: str, length: int) -> str:
    """Stable class name of a syntactically valid single range (for mechanism names)."""
    rest = header.strip(' \t').split('=', 1)[1]
    m = _SPEC.match(rest)
    first, last, suffix = m.groups()
    if suffix is not None:
        return 'suffix-longer-than-resource' if int(suffix) > length else 'suffix'
    if last == '':
        return 'open-ended'
    return 'last-beyond-end' if int(last) >= length else 'closed'


def selftest() -> list[str]:
    bad = []
    L = 100
    table = [
        ('bytes=0-0', ('sat', 0, 0)), ('bytes=0-', ('sat', 0, 99)), ('bytes=99-', ('sat', 99, 99)),
        ('bytes=100-', ('unsat',)), ('bytes=0-99', ('sat', 0, 99)), ('bytes=0-100', ('sat', 0, 99)),
        ('bytes=50-1000', ('sat', 50, 99)), ('bytes=-1', ('sat', 99, 99)), ('bytes=-100', ('sat', 0, 99)),
        ('bytes=-101', ('sat', 0, 99)), ('bytes=-0', ('unsat',)), ('bytes=5-2', ('invalid', 'last < first')),
        ('bytes=0-1,3-4', ('invalid', 'several ranges')), ('items=0-1', ('invalid', 'other unit')),
        ('bytes=a-b', ('invalid', 'malformed')), ('BYTES=1-2', ('sat', 1, 2)), (None, ('absent',)),
        ('bytes=+1-2', ('invalid', 'malformed')), ('bytes=1 - 2', ('invalid', 'malformed')),
        ('bytes=200-300', ('unsat',)),
    ]
    for h, want in table:
        got = classify(h, L)
        if got != want:
            bad.append(f'rfc7233 classify({h!r}) = {got}, want {want}')
    return bad
