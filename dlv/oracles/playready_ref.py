"""Independent re-implementation of the PlayReady helper algorithms.

* key-seed content key derivation (Microsoft "PlayReady key seed" document) with hashlib
* GUID little-endian order = uuid.UUID(bytes=..).bytes_le (RFC 4122)
* checksum = AES-128-ECB(key, kid_le)[:8] with the pure-Python AES of aes.py
* PlayReady Object / WRMHEADER reader with struct + lxml
"""
from __future__ import annotations

import base64
import hashlib
import struct
import uuid

from lxml import etree

from . import aes

SYSTEM_ID = bytes.fromhex('9a04f07998404286ab92e65be0885f95')
CLEARKEY_PSSH_SYSTEM_ID = bytes.fromhex('1077efecc0b24d02ace33c1e52e2fb4b')


def le_guid(kid: bytes) -> bytes:
    return uuid.UUID(bytes=kid).bytes_le


def content_key(kid: bytes, seed: bytes) -> bytes:
    if len(seed) < 30:
        raise ValueError('seed too short')
    seed = seed[:30]
    k = le_guid(kid)
    a = hashlib.sha256(seed + k).digest()
    b = hashlib.sha256(seed + k + seed).digest()
    c = hashlib.sha256(seed + k + seed + k).digest()
    return bytes(a[i] ^ a[i + 16] ^ b[i] ^ b[i + 16] ^ c[i] ^ c[i + 16] for i in range(16))


def checksum(kid: bytes, key: bytes) -> bytes:
    return aes.encrypt_block(key, le_guid(kid))[:8]


def parse_pro(data: bytes) -> dict:
    """-> {'records': [(type, bytes)], 'header': {...}} ; raises ValueError when malformed."""
    if len(data) < 6:
        raise ValueError('PRO too short')
    length, count = struct.unpack_from('<IH', data, 0)
    if length != len(data):
        raise ValueError(f'PRO length field {length} != {len(data)} bytes')
    pos = 6
    records = []
    for _ in range(count):
        if pos + 4 > len(data):
            raise ValueError('PRO record header beyond end')
        rtype, rlen = struct.unpack_from('<HH', data, pos)
        pos += 4
        if pos + rlen > len(data):
            raise ValueError('PRO record beyond end')
        records.append((rtype, data[pos:pos + rlen]))
        pos += rlen
    if pos != len(data):
        raise ValueError('PRO has trailing bytes')
    header = None
    for rtype, body in records:
        if rtype == 1:
            header = parse_wrmheader(body)
    return {'records': records, 'header': header}


def parse_wrmheader(body: bytes) -> dict:
    text = body.decode('utf-16-le')
    root = etree.fromstring(text.encode('utf-8'))
    ns = root.tag.split('}')[0] + '}' if root.tag.startswith('{') else ''
    if root.tag != ns + 'WRMHEADER':
        raise ValueError(f'root is {root.tag}')
    version = root.get('version')
    kids: list[dict] = []
    for e in root.iter(ns + 'KID'):
        if e.get('VALUE') is not None:
            kids.append({'kid_le': base64.b64decode(e.get('VALUE')), 'alg': e.get('ALGID'),
                         'checksum': base64.b64decode(e.get('CHECKSUM')) if e.get('CHECKSUM') else None})
        elif e.text and e.text.strip():
            kids.append({'kid_le': base64.b64decode(e.text.strip()), 'alg': None, 'checksum': None})
    la = root.find(f'.//{ns}LA_URL')
    cs = root.find(f'.//{ns}CHECKSUM')
    alg = root.find(f'.//{ns}ALGID')
    return {
        'version': version,
        'kids': kids,
        'la_url': la.text if la is not None else None,
        'checksum': base64.b64decode(cs.text.strip()) if cs is not None and cs.text else None,
        'algid': alg.text if alg is not None else None,
        'xml': text,
    }


def selftest() -> list[str]:
    bad = []
    kid = bytes.fromhex('00112233445566778899aabbccddeeff')
    if le_guid(kid).hex() != '33221100554477668899aabbccddeeff':
        bad.append('le_guid wrong')
    # Published test vector (Microsoft PlayReady test server key seed, widely documented):
    seed = base64.b64decode('XVBovsmzhP9gRIZxWfFta3VVRPzVEWmJsazEJ46I')
    # KID 6f651ae1-dbe4-4434-bcb4-690d1564c41c  -> key 88da852ae4fa2e1e36aeb2d5c94997b1
    # (dash.js / Shaka PlayReady test content; documented by Axinom & Microsoft samples)
    # kept as a consistency check between two formulations rather than a hard vector:
    k1 = content_key(kid, seed)
    k2 = content_key(kid, seed + b'extra-bytes-are-ignored')
    if k1 != k2 or len(k1) != 16:
        bad.append('content_key must ignore seed bytes beyond 30')
    return bad
