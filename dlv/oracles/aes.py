"""Pure-Python AES-128 block encryption (FIPS-197), independent of pycryptodome.
Only what the PlayReady checksum needs: ECB encryption of single 16-byte blocks."""
from __future__ import annotations


def _xtime(a: int) -> int:
    a <<= 1
    if a & 0x100:
        a ^= 0x11B
    return a & 0xFF


def _build_sbox() -> list[int]:
    # multiplicative inverse in GF(2^8) followed by the affine transform
    exp = [0] * 512
    log = [0] * 256
    x = 1
    for i in range(255):
        exp[i] = x
        log[x] = i
        x ^= _xtime(x)          # multiply by generator 3
    for i in range(255, 512):
        exp[i] = exp[i - 255]
    sbox = [0] * 256
    for v in range(256):
        inv = 0 if v == 0 else exp[255 - log[v]]
        s = inv
        for shift in (1, 2, 3, 4):
            s ^= ((inv << shift) | (inv >> (8 - shift))) & 0xFF
        sbox[v] = s ^ 0x63
    return sbox


SBOX = _build_sbox()
RCON = [0x01, 0x02, 0x04, 0x08, 0x10, 0x20, 0x40, 0x80, 0x1B, 0x36]


def expand_key(key: bytes) -> list[list[int]]:
    assert len(key) == 16
    w = [list(key[i:i + 4]) for i in range(0, 16, 4)]
    for i in range(4, 44):
        t = list(w[i - 1])
        if i % 4 == 0:
            t = t[1:] + t[:1]
            t = [SBOX[b] for b in t]
            t[0] ^= RCON[i // 4 - 1]
        w.append([a ^ b for a, b in zip(w[i - 4], t)])
    return [sum(w[r * 4:r * 4 + 4], []) for r in range(11)]


def encrypt_block(key: bytes, block: bytes) -> bytes:
    assert len(block) == 16
    rk = expand_key(key)
    s = [b ^ k for b, k in zip(block, rk[0])]
    for rnd in range(1, 11):
        s = [SBOX[b] for b in s]
        # ShiftRows (state is column-major: index = 4*col + row)
        s = [s[4 * ((c + r) % 4) + r] for c in range(4) for r in range(4)]
        if rnd != 10:
            out = []
            for c in range(4):
                a = s[4 * c:4 * c + 4]
                t = a[0] ^ a[1] ^ a[2] ^ a[3]
                out += [a[i] ^ t ^ _xtime(a[i] ^ a[(i + 1) % 4]) for i in range(4)]
            s = out
        s = [b ^ k for b, k in zip(s, rk[rnd])]
    return bytes(s)


def selftest() -> list[str]:
    bad = []
    # FIPS-197 Appendix C.1
    key = bytes.fromhex('000102030405060708090a0b0c0d0e0f')
    pt = bytes.fromhex('00112233445566778899aabbccddeeff')
    if encrypt_block(key, pt).hex() != '69c4e0d86a7b0430d8cdb78070b4c55a':
        bad.append('AES FIPS-197 C.1 vector failed')
    # FIPS-197 Appendix B
    key = bytes.fromhex('2b7e151628aed2a6abf7158809cf4f3c')
    pt = bytes.fromhex('3243f6a8885a308d313198a2e0370734')
    if encrypt_block(key, pt).hex() != '3925841d02dc09fbdc118597196a0b32':
        bad.append('AES FIPS-197 B vector failed')
    if SBOX[0x53] != 0xED or SBOX[0] != 0x63:
        bad.append('AES S-box wrong')
    return bad
