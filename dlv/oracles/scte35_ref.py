"""Independent bit reader for SCTE-35 splice_info_section (splice_insert / time_signal /
splice_null) written from ANSI/SCTE 35 section 9."""
from __future__ import annotations

import base64

from .crc import crc32_mpeg2


class Bits:
    def __init__(self, data: bytes) -> None:
        self.data = data
        self.pos = 0

    def get(self, n: int) -> int:
        v = 0
        for _ in range(n):
            byte = self.data[self.pos >> 3]
            v = (v << 1) | ((byte >> (7 - (self.pos & 7))) & 1)
            self.pos += 1
        return v

    def bytepos(self) -> int:
        assert self.pos % 8 == 0
        return self.pos // 8


def splice_time(b: Bits):
    if b.get(1):
        b.get(6)
        return b.get(33)
    b.get(7)
    return None


def parse(data: bytes) -> dict:
    b = Bits(data)
    rv: dict = {}
    rv['table_id'] = b.get(8)
    rv['section_syntax_indicator'] = b.get(1)
    rv['private_indicator'] = b.get(1)
    rv['sap_type'] = b.get(2)
    rv['section_length'] = b.get(12)
    if rv['section_length'] + 3 != len(data):
        raise ValueError(f'section_length {rv["section_length"]} + 3 != {len(data)} bytes')
    rv['protocol_version'] = b.get(8)
    rv['encrypted_packet'] = b.get(1)
    rv['encryption_algorithm'] = b.get(6)
    rv['pts_adjustment'] = b.get(33)
    rv['cw_index'] = b.get(8)
    rv['tier'] = b.get(12)
    rv['splice_command_length'] = b.get(12)
    rv['splice_command_type'] = b.get(8)
    start = b.bytepos()
    t = rv['splice_command_type']
    if t == 5:
        si: dict = {}
        si['splice_event_id'] = b.get(32)
        si['cancel'] = b.get(1)
        b.get(7)
        if not si['cancel']:
            si['out_of_network'] = b.get(1)
            si['program_splice'] = b.get(1)
            si['duration_flag'] = b.get(1)
            si['immediate'] = b.get(1)
            b.get(4)
            si['pts'] = None
            if si['program_splice'] and not si['immediate']:
                si['pts'] = splice_time(b)
            if not si['program_splice']:
                si['components'] = []
                for _ in range(b.get(8)):
                    tag = b.get(8)
                    si['components'].append((tag, None if si['immediate'] else splice_time(b)))
            if si['duration_flag']:
                si['auto_return'] = b.get(1)
                b.get(6)
                si['break_duration'] = b.get(33)
            si['unique_program_id'] = b.get(16)
            si['avail_num'] = b.get(8)
            si['avails_expected'] = b.get(8)
        rv['splice_insert'] = si
    elif t == 6:
        rv['time_signal'] = splice_time(b)
    elif t == 0:
        pass
    else:
        raise ValueError(f'command type {t} not modelled')
    if rv['splice_command_length'] != 0xFFF and b.bytepos() - start != rv['splice_command_length']:
        raise ValueError(f'splice_command_length {rv["splice_command_length"]} != {b.bytepos() - start}')
    dl = b.get(16)
    dstart = b.bytepos()
    descs = []
    while b.bytepos() < dstart + dl:
        tag = b.get(8)
        ln = b.get(8)
        body = data[b.bytepos():b.bytepos() + ln]
        b.pos += ln * 8
        descs.append((tag, body))
    if b.bytepos() != dstart + dl:
        raise ValueError('descriptor loop overruns its length')
    rv['descriptors'] = descs
    if b.bytepos() != len(data) - 4:
        raise ValueError(f'{len(data) - 4 - b.bytepos()} stuffing/unknown bytes before CRC')
    rv['crc'] = int.from_bytes(data[-4:], 'big')
    rv['crc_valid'] = crc32_mpeg2(data[:-4]) == rv['crc']
    return rv


def parse_segmentation(body: bytes) -> dict:
    """segmentation_descriptor() of ANSI/SCTE 35 section 10.3.3; body = the bytes after descriptor_length"""
    b = Bits(body)
    rv = {'identifier': b.get(32), 'segmentation_event_id': b.get(32), 'cancel': b.get(1)}
    b.get(7)
    if rv['cancel']:
        if b.bytepos() != len(body):
            raise ValueError('bytes after a cancelled segmentation descriptor')
        return rv
    rv['program_segmentation_flag'] = b.get(1)
    rv['segmentation_duration_flag'] = b.get(1)
    rv['delivery_not_restricted_flag'] = b.get(1)
    if rv['delivery_not_restricted_flag']:
        b.get(5)
    else:
        rv['web_delivery_allowed_flag'] = b.get(1)
        rv['no_regional_blackout_flag'] = b.get(1)
        rv['archive_allowed_flag'] = b.get(1)
        rv['device_restrictions'] = b.get(2)
    if not rv['program_segmentation_flag']:
        rv['components'] = []
        for _ in range(b.get(8)):
            tag = b.get(8)
            b.get(7)
            rv['components'].append((tag, b.get(33)))
    if rv['segmentation_duration_flag']:
        rv['segmentation_duration'] = b.get(40)
    rv['segmentation_upid_type'] = b.get(8)
    n = b.get(8)
    rv['segmentation_upid'] = bytes(body[b.bytepos():b.bytepos() + n])
    if len(rv['segmentation_upid']) != n:
        raise ValueError('segmentation_upid beyond the descriptor')
    b.pos += 8 * n
    rv['segmentation_type_id'] = b.get(8)
    rv['segment_num'] = b.get(8)
    rv['segments_expected'] = b.get(8)
    if rv['segmentation_type_id'] in (0x34, 0x36, 0x38, 0x3A) and b.bytepos() < len(body):
        rv['sub_segment_num'] = b.get(8)
        rv['sub_segments_expected'] = b.get(8)
    if b.bytepos() != len(body):
        raise ValueError(f'{len(body) - b.bytepos()} bytes left in segmentation descriptor')
    return rv


def selftest() -> list[str]:
    bad = []
    # ANSI/SCTE 35 section 14.2 example
    d = base64.b64decode('/DAvAAAAAAAA///wFAVIAACPf+/+c2nALv4AUsz1AAAAAAAKAAhDVUVJAAABNWLbowo=')
    try:
        p = parse(d)
        si = p['splice_insert']
        if not (p['crc_valid'] and si['splice_event_id'] == 0x4800008f and si['pts'] == 0x07369c02e
                and si['break_duration'] == 0x00052ccf5 and si['auto_return'] == 1):
            bad.append('SCTE-35 14.2 example mis-read')
    except Exception as err:
        bad.append(f'SCTE-35 14.2 example: {err!r}')
    d = base64.b64decode('/DAvAAAAAAAA///wBQb+dGKQoAAZAhdDVUVJSAAAjn+fCAgAAAAALKChijUCAKnMZ1g=')
    try:
        p = parse(d)
        if not (p['crc_valid'] and p['time_signal'] == 0x0746290a0):
            bad.append('SCTE-35 14.3 example mis-read')
        sd = parse_segmentation(p['descriptors'][0][1])
        if not (sd['segmentation_event_id'] == 0x4800008e and sd['segmentation_upid_type'] == 8 and
                sd['segmentation_upid'] == bytes.fromhex('000000002ca0a18a') and sd['segmentation_type_id'] == 0x35 and
                sd['segment_num'] == 2 and sd['segments_expected'] == 0):
            bad.append(f'SCTE-35 14.3 segmentation descriptor mis-read: {sd}')
    except Exception as err:
        bad.append(f'SCTE-35 14.3 example: {err!r}')
    return bad
