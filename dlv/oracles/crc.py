"""CRC-32/MPEG-2 (poly 0x04C11DB7, init 0xFFFFFFFF, no reflection, no final xor)."""


def crc32_mpeg2(data: bytes) -> int:
    crc = 0xFFFFFFFF
    for byte in data:
        crc ^= byte << 24
        for _ in range(8):
            if crc & 0x80000000:
                crc = ((crc << 1) ^ 0x04C11DB7) & 0xFFFFFFFF
            else:
                crc = (crc << 1) & 0xFFFFFFFF
    return crc


def selftest() -> list[str]:
    bad = []
    if crc32_mpeg2(b'123456789') != 0x0376E6E7:
        bad.append('CRC-32/MPEG-2 check value wrong')
    return bad
