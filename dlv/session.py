"""Client-side sessions against the real app (cookie jar + tokens), used by workloads that
act as an authorised or lesser user."""
from __future__ import annotations


class UserSession:
    def __init__(self, env, username: str | None = None, password: str | None = None) -> None:
        self.env = env
        self.client = env.client()
        self.username = username
        self.access_token: str | None = None
        self.refresh_token: str | None = None
        self.login_csrf: str | None = None
        self.user_pk: int | None = None
        if username is not None:
            r = env.get('/api/login', client=self.client, method='POST',
                        json={'username': username, 'password': password, 'rememberme': False})
            js = r.get_json() or {}
            if not js.get('success'):
                raise RuntimeError(f'login of {username} failed: {r.status_code} {js}')
            self.access_token = js['accessToken']['jwt']
            self.refresh_token = js['refreshToken']['jwt']
            self.login_csrf = js.get('csrf_token')
            self.user_pk = js['user']['pk']

    def bearer(self, refresh: bool = False) -> dict:
        tok = self.refresh_token if refresh else self.access_token
        return {'Authorization': f'Bearer {tok}'} if tok else {}

    def request(self, method: str, url: str, **kw):
        return self.env.get(url, client=self.client, method=method, **kw)

    def stream_tokens(self, spk: int) -> dict:
        """CSRF tokens handed out by GET /stream/<pk>?ajax=1 (any role may fetch them)"""
        r = self.request('GET', f'/stream/{spk}?ajax=1')
        js = r.get_json() or {}
        return js.get('csrf_tokens') or {}

    def list_streams_tokens(self) -> dict:
        r = self.request('GET', '/streams?ajax=1')
        js = r.get_json() or {}
        return {k: v for k, v in js.items() if 'csrf' in k}

    def edit_stream(self, spk: int, **fields):
        """POST /stream/<pk> as JSON with a fresh 'streams' token"""
        toks = self.stream_tokens(spk)
        r0 = self.request('GET', f'/stream/{spk}?ajax=1').get_json()
        body = {
            'title': r0['title'], 'directory': r0['directory'],
            'marlin_la_url': r0.get('marlin_la_url') or '', 'playready_la_url': r0.get('playready_la_url') or '',
            'timing_ref': (r0.get('timing_ref') or {}).get('media_name', '') if isinstance(r0.get('timing_ref'), dict)
            else (r0.get('timing_ref') or ''),
            'csrf_token': toks.get('streams'),
        }
        body.update(fields)
        return self.request('POST', f'/stream/{spk}?ajax=1', json=body)
