"""Common machinery: sharded subprocess runner, verdicts, evidence, known findings.

Every check module (dlv.checks.cNN) exposes

    PROPERTY   = 'Cnn'
    LEVEL      = 'exploration' | 'fault_enumeration'
    RULE       = text: how cases are generated and what makes one distinct/non-trivial
    ASSUMPTIONS = [..]
    REQUIRED_COUNTERS = [names that must be > 0, else INCONCLUSIVE]
    def shards(tier) -> int
    def run_shard(ctx: ShardCtx) -> ShardResult

The parent process (this module's main()) spawns one python child per shard
(subprocess.run with a timeout -- never multiprocessing.Pool), merges their JSON
results, classifies violations against known_findings.json, writes the evidence
file and replay files and prints the verdict lines.

Exit codes: 0 held-on-observed, 1 violation (VIOLATION line printed),
2 inconclusive (monitor not reached / worker died / timeout).
"""
from __future__ import annotations

import hashlib
import importlib
import json
import os
import random
import shutil
import subprocess
import sys
import tempfile
import time
import traceback
from pathlib import Path
from typing import Any

VERIF = Path(__file__).resolve().parent.parent
REPO = Path(os.environ.get('VERIF_REPO', '/repo')).resolve()
PY = os.environ.get('VERIF_PYTHON', '/venv/bin/python')
MAX_SAMPLES = 8
MAX_VIOLATIONS_PER_SHARD = 40


def setup_paths() -> None:
    """Put the repository's *working tree* and the harness-only shims on sys.path."""
    for p in (str(VERIF / 'shims'), str(REPO), str(VERIF)):
        if p in sys.path:
            sys.path.remove(p)
    sys.path.insert(0, str(VERIF))
    sys.path.insert(0, str(VERIF / 'shims'))
    sys.path.insert(0, str(REPO))
    deps = VERIF / '.deps'
    if deps.exists() and str(deps) not in sys.path:
        sys.path.append(str(deps))


class ShardCtx:
    def __init__(self, prop: str, tier: str, seed: int, shard: int, nshards: int,
                 replay: dict | None = None) -> None:
        self.prop = prop
        self.tier = tier
        self.seed = seed
        self.shard = shard
        self.nshards = nshards
        self.replay = replay
        h = hashlib.sha256(f'{prop}:{seed}:{shard}'.encode()).digest()
        self.rng = random.Random(int.from_bytes(h[:8], 'big'))
        self.t0 = time.monotonic()
        # soft wall budget: generators stop producing new cases after this;
        # it never turns into a verdict.
        self.budget_s = float(os.environ.get(
            'VERIF_BUDGET_S', '50' if tier == 'quick' else '600'))

    def time_left(self) -> float:
        return self.budget_s - (time.monotonic() - self.t0)

    def out_of_time(self) -> bool:
        return self.time_left() <= 0

    def scale(self, quick: int, thorough: int) -> int:
        return quick if self.tier == 'quick' else thorough


class ShardResult:
    """Accumulates what one shard observed."""

    def __init__(self) -> None:
        self.evaluations = 0
        self.keys: set[str] = set()
        self.samples: list[Any] = []
        self.violations: list[dict] = []
        self.violation_count = 0
        self.counters: dict[str, int] = {}
        self.hist: dict[str, dict[str, int]] = {}
        self.notes: list[str] = []
        self.inconclusive: list[str] = []

    def case(self, key: Any = None, sample: Any = None) -> None:
        self.evaluations += 1
        if key is not None:
            self.keys.add(key if isinstance(key, str) else json.dumps(key, sort_keys=True, default=str))
        if sample is not None and len(self.samples) < MAX_SAMPLES:
            self.samples.append(sample)

    def count(self, name: str, n: int = 1) -> None:
        self.counters[name] = self.counters.get(name, 0) + n

    def bucket(self, dim: str, value: Any, n: int = 1) -> None:
        d = self.hist.setdefault(dim, {})
        k = str(value)
        d[k] = d.get(k, 0) + n

    def violation(self, mechanism: str, message: str, replay: dict | None = None,
                  **detail: Any) -> None:
        """Record one violation.  mechanism = stable classification of *what* failed
        (used only to match known_findings.json), never containing random values."""
        self.violation_count += 1
        self.count('violations:' + mechanism)
        if len(self.violations) < MAX_VIOLATIONS_PER_SHARD:
            # keep at most 3 witnesses per mechanism per shard
            same = sum(1 for v in self.violations if v['mechanism'] == mechanism)
            if same < 3:
                self.violations.append({
                    'mechanism': mechanism, 'message': message,
                    'detail': detail, 'replay': replay or {}})

    def to_json(self) -> dict:
        return {
            'evaluations': self.evaluations,
            'keys': sorted(self.keys),
            'samples': self.samples,
            'violations': self.violations,
            'violation_count': self.violation_count,
            'counters': self.counters,
            'hist': self.hist,
            'notes': self.notes,
            'inconclusive': self.inconclusive,
        }


def jdefault(o: Any) -> Any:
    if isinstance(o, bytes):
        return o.hex()
    if isinstance(o, (set, frozenset)):
        return sorted(o, key=str)
    return str(o)


# --------------------------------------------------------------------------
# child entry
# --------------------------------------------------------------------------
def child_main(argv: list[str]) -> int:
    prop, tier, seed, shard, nshards, out = argv[:6]
    replay = None
    if len(argv) > 6 and argv[6]:
        replay = json.loads(Path(argv[6]).read_text())
    setup_paths()
    mod = importlib.import_module(f'dlv.checks.{prop.lower()}')
    ctx = ShardCtx(prop, tier, int(seed), int(shard), int(nshards), replay)
    try:
        res: ShardResult = mod.run_shard(ctx)
        data = res.to_json()
    except BaseException as err:  # harness failure => inconclusive, never "held"
        data = ShardResult().to_json()
        data['inconclusive'].append(
            f'shard {shard} crashed in harness: {err!r}\n' + traceback.format_exc()[-3000:])
    Path(out).write_text(json.dumps(data, default=jdefault))
    return 0


# --------------------------------------------------------------------------
# parent
# --------------------------------------------------------------------------
def load_known_findings() -> list[dict]:
    path = VERIF / 'known_findings.json'
    if not path.exists():
        return []
    return json.loads(path.read_text()).get('findings', [])


def child_env(tmp: str) -> dict:
    env = dict(os.environ)
    env['PYTHONDONTWRITEBYTECODE'] = '1'
    env['PYTHONPYCACHEPREFIX'] = os.path.join(tmp, 'pyc')
    env['PYTHONHASHSEED'] = env.get('PYTHONHASHSEED', '0')
    env['DASHLIVE_VERIF'] = '1'
    env['TMPDIR'] = tmp
    env.pop('PYTHONPATH', None)
    return env


def main(argv: list[str] | None = None) -> int:
    import argparse
    ap = argparse.ArgumentParser(prog='check')
    ap.add_argument('prop')
    ap.add_argument('--tier', default=os.environ.get('VERIF_TIER', 'quick'),
                    choices=['quick', 'thorough'])
    ap.add_argument('--seed', type=int, default=int(os.environ.get('VERIF_SEED', '1')))
    ap.add_argument('--replay', default=None)
    ap.add_argument('--jobs', type=int, default=int(os.environ.get('VERIF_JOBS', '0')))
    ap.add_argument('--no-evidence', action='store_true')
    args = ap.parse_args(argv)
    prop = args.prop.upper()
    t0 = time.time()
    setup_paths()
    mod = importlib.import_module(f'dlv.checks.{prop.lower()}')

    replay_file = ''
    if args.replay:
        replay_file = str(Path(args.replay).resolve())
        nshards = 1
    else:
        nshards = mod.shards(args.tier)
    jobs = args.jobs or min(nshards, os.cpu_count() or 4)
    tmp = tempfile.mkdtemp(prefix=f'dlv_{prop}_')
    timeout = float(os.environ.get(
        'VERIF_SHARD_TIMEOUT', '600' if args.tier == 'quick' else '5400'))
    results: list[dict] = []
    inconclusive: list[str] = []
    try:
        pending = list(range(nshards))
        running: dict[int, tuple[subprocess.Popen, float, str]] = {}
        env = child_env(tmp)
        while pending or running:
            while pending and len(running) < jobs:
                sh = pending.pop(0)
                out = os.path.join(tmp, f'shard{sh}.json')
                log = open(os.path.join(tmp, f'shard{sh}.log'), 'wb')
                p = subprocess.Popen(
                    [PY, '-X', 'faulthandler', '-m', 'dlv.core', '--child', prop, args.tier,
                     str(args.seed), str(sh), str(nshards), out, replay_file],
                    cwd=str(VERIF), env=env, stdout=log, stderr=subprocess.STDOUT)
                running[sh] = (p, time.time(), out)
            time.sleep(0.05)
            for sh in list(running):
                p, started, out = running[sh]
                rc = p.poll()
                if rc is None:
                    if time.time() - started > timeout:
                        p.kill()
                        p.wait()
                        inconclusive.append(f'shard {sh}: wall-clock watchdog ({timeout}s) fired')
                        del running[sh]
                    continue
                del running[sh]
                if rc != 0 or not os.path.exists(out):
                    tail = ''
                    try:
                        tail = Path(os.path.join(tmp, f'shard{sh}.log')).read_text(errors='replace')[-2000:]
                    except OSError:
                        pass
                    inconclusive.append(f'shard {sh}: child exited rc={rc} without result\n{tail}')
                    continue
                results.append(json.loads(Path(out).read_text()))
    finally:
        shutil.rmtree(tmp, ignore_errors=True)

    return finish(mod, prop, args, results, inconclusive, nshards, t0)


def finish(mod, prop: str, args, results: list[dict], inconclusive: list[str],
           nshards: int, t0: float) -> int:
    evaluations = sum(r['evaluations'] for r in results)
    keys: set[str] = set()
    samples: list[Any] = []
    counters: dict[str, int] = {}
    hist: dict[str, dict[str, int]] = {}
    violations: list[dict] = []
    vcount = 0
    notes: list[str] = []
    for r in results:
        keys.update(r['keys'])
        for s in r['samples']:
            if len(samples) < MAX_SAMPLES:
                samples.append(s)
        for k, v in r['counters'].items():
            counters[k] = counters.get(k, 0) + v
        for dim, d in r['hist'].items():
            dd = hist.setdefault(dim, {})
            for k, v in d.items():
                dd[k] = dd.get(k, 0) + v
        violations.extend(r['violations'])
        vcount += r['violation_count']
        notes.extend(r['notes'])
        inconclusive.extend(r['inconclusive'])

    for name in getattr(mod, 'REQUIRED_COUNTERS', []):
        if counters.get(name, 0) <= 0 and not args.replay:
            inconclusive.append(f'deciding monitor/reach counter "{name}" observed nothing')

    # classify against the committed known-findings file (read only, never written)
    known = [f for f in load_known_findings()
             if f.get('property') == prop and f.get('status') == 'known']
    known_by_mech = {f['mechanism']: f for f in known}
    seen_known: dict[str, int] = {}
    new_violations: list[dict] = []
    for v in violations:
        if v['mechanism'] in known_by_mech:
            seen_known[v['mechanism']] = seen_known.get(v['mechanism'], 0) + 1
        else:
            new_violations.append(v)
    n_known = sum(c for k, c in counters.items()
                  if k.startswith('violations:') and k[len('violations:'):] in known_by_mech)
    n_new = vcount - n_known

    rc = 0
    lines: list[str] = []
    for mech in sorted(seen_known):
        lines.append(f'KNOWN-FINDING: property={prop} {mech}: {known_by_mech[mech].get("what", "")}')
    replay_dir = VERIF / 'replays' / prop
    # one witness per known finding seen in this run (run output, not evidence: replays/ is not
    # committed; tools/collect_findings.py copies them to findings/ for the record)
    if seen_known and not args.replay:
        kdir = replay_dir / 'known'
        kdir.mkdir(parents=True, exist_ok=True)
        donek: set[str] = set()
        for v in violations:
            m = v['mechanism']
            if m in known_by_mech and m not in donek:
                donek.add(m)
                slug = ''.join(ch if ch.isalnum() or ch in '-_.' else '_' for ch in m)[:120]
                body = {'property': prop, 'seed': args.seed, 'tier': args.tier, 'mechanism': m,
                        'message': v['message'], 'detail': v['detail'], 'replay': v['replay']}
                (kdir / f'{slug}.json').write_text(json.dumps(body, indent=1, default=jdefault, sort_keys=True))
    if new_violations:
        rc = 1
        replay_dir.mkdir(parents=True, exist_ok=True)
        done: set[str] = set()
        for v in new_violations:
            if v['mechanism'] in done:
                continue
            done.add(v['mechanism'])
            body = {'property': prop, 'seed': args.seed, 'tier': args.tier,
                    'mechanism': v['mechanism'], 'message': v['message'],
                    'detail': v['detail'], 'replay': v['replay']}
            text = json.dumps(body, indent=1, default=jdefault, sort_keys=True)
            name = hashlib.sha1(text.encode()).hexdigest()[:12] + '.json'
            path = replay_dir / name
            path.write_text(text)
            lines.append(f'VIOLATION property={prop} replay={path}')
            lines.append(f'  mechanism={v["mechanism"]}: {v["message"][:400]}')
    elif inconclusive:
        rc = 2
        for msg in inconclusive[:10]:
            lines.append(f'INCONCLUSIVE property={prop} {msg[:1500]}')

    wall = time.time() - t0
    coverage = {
        'evaluations': int(evaluations),
        'distinct_nontrivial': len(keys),
        'rule': getattr(mod, 'RULE', ''),
        'samples': samples,
        'exhaustive': bool(getattr(mod, 'EXHAUSTIVE', {}).get(args.tier, False)),
        'shards': nshards,
        'monitor_counters': {k: v for k, v in sorted(counters.items())},
        'histograms': {dim: dict(sorted(d.items(), key=lambda kv: -kv[1])[:40])
                       for dim, d in sorted(hist.items())},
        'known_findings_seen': seen_known,
        'new_violation_mechanisms': sorted({v['mechanism'] for v in new_violations}),
        'inconclusive': inconclusive[:10],
        'notes': sorted(set(notes))[:30],
        'repo': str(REPO),
    }
    evidence = {
        'property_id': prop,
        'tier': args.tier,
        'seed': int(args.seed),
        'level': getattr(mod, 'LEVEL', 'exploration'),
        'coverage': coverage,
        'assumptions': list(getattr(mod, 'ASSUMPTIONS', [])),
        'wall_s': round(wall, 2),
        'violations': int(n_new),
        'verdict': {0: 'held-on-observed', 1: 'violated', 2: 'inconclusive'}[rc],
    }
    if not args.replay and not args.no_evidence and 'VERIF_NO_EVIDENCE' not in os.environ:
        ev_dir = VERIF / 'evidence'
        ev_dir.mkdir(exist_ok=True)
        (ev_dir / f'{prop}.json').write_text(
            json.dumps(evidence, indent=1, default=jdefault, sort_keys=True) + '\n')
    for ln in lines:
        print(ln)
    print(f'{prop} tier={args.tier} seed={args.seed} verdict={evidence["verdict"]} '
          f'evaluations={evaluations} distinct={len(keys)} violations_new={n_new} '
          f'known={n_known} wall={wall:.1f}s')
    interesting = {k: v for k, v in counters.items() if not k.startswith('violations:')}
    print('  counters: ' + ', '.join(f'{k}={v}' for k, v in sorted(interesting.items())[:40]))
    return rc


if __name__ == '__main__':
    if len(sys.argv) > 1 and sys.argv[1] == '--child':
        sys.exit(child_main(sys.argv[2:]))
    sys.exit(main())
