"""Persistent-state observer: raw-SQL table dumps + blob directory listing (independent of the ORM),
snapshot / restore of the whole store."""
from __future__ import annotations

import hashlib
import os
import shutil
import sqlite3
from pathlib import Path


class StateObserver:
    def __init__(self, env) -> None:
        self.env = env
        self.db_path = str(env.tmp / 'models.db3')
        self.blob_dir = Path(env.blob_folder)

    def tables(self) -> dict[str, list[tuple]]:
        con = sqlite3.connect(f'file:{self.db_path}?mode=ro', uri=True, timeout=30)
        try:
            names = [r[0] for r in con.execute(
                "select name from sqlite_master where type='table' and name not like 'sqlite_%' order by name")]
            out = {}
            for n in names:
                cols = [c[1] for c in con.execute(f'pragma table_info("{n}")')]
                order = 'pk' if 'pk' in cols else ', '.join(f'"{c}"' for c in cols)
                rows = con.execute(f'select * from "{n}" order by {order}').fetchall()
                out[n] = [tuple(cols)] + rows
            return out
        finally:
            con.close()

    def blobs(self) -> dict[str, tuple[int, str]]:
        out = {}
        if self.blob_dir.exists():
            for root, _dirs, files in os.walk(self.blob_dir, followlinks=False):
                for f in files:
                    p = Path(root) / f
                    rel = str(p.relative_to(self.blob_dir))
                    try:
                        if p.is_symlink():
                            out[rel] = (-1, os.readlink(p))
                        else:
                            out[rel] = (p.stat().st_size, hashlib.sha1(p.read_bytes()).hexdigest())
                    except OSError:
                        out[rel] = (-2, 'unreadable')
        return out

    def observe(self) -> dict:
        return {'tables': self.tables(), 'blobs': self.blobs()}

    @staticmethod
    def diff(a: dict, b: dict, ignore_tables=('Token',)) -> dict:
        """-> {'tables': {name: {'added': n, 'removed': n, 'rows': [...]}}, 'blobs': {...}}"""
        out = {'tables': {}, 'blobs': {}}
        for name in sorted(set(a['tables']) | set(b['tables'])):
            if name in ignore_tables:
                continue
            ra = a['tables'].get(name, [()])
            rb = b['tables'].get(name, [()])
            if ra == rb:
                continue
            cols = (rb or ra)[0]
            sa, sb = set(ra[1:]), set(rb[1:])
            out['tables'][name] = {'columns': cols, 'removed': sorted(sa - sb, key=repr)[:5],
                                   'added': sorted(sb - sa, key=repr)[:5],
                                   'n_removed': len(sa - sb), 'n_added': len(sb - sa)}
        ba, bb = a['blobs'], b['blobs']
        for k in sorted(set(ba) | set(bb)):
            if ba.get(k) != bb.get(k):
                out['blobs'][k] = (ba.get(k), bb.get(k))
        return out

    # ---------------------------------------------------------------- snapshot / restore
    def snapshot(self, name: str = 'snap') -> Path:
        dest = self.env.tmp / f'_{name}'
        if dest.exists():
            shutil.rmtree(dest)
        dest.mkdir()
        self._dispose()
        shutil.copy2(self.db_path, dest / 'models.db3')
        shutil.copytree(self.blob_dir, dest / 'blobs', symlinks=True)
        return dest

    def restore(self, name: str = 'snap') -> None:
        src = self.env.tmp / f'_{name}'
        self._dispose()
        shutil.copy2(src / 'models.db3', self.db_path)
        for extra in ('-wal', '-shm', '-journal'):
            try:
                os.unlink(self.db_path + extra)
            except OSError:
                pass
        shutil.rmtree(self.blob_dir, ignore_errors=True)
        shutil.copytree(src / 'blobs', self.blob_dir, symlinks=True)

    def _dispose(self) -> None:
        with self.env.app.app_context():
            self.env.models.db.session.remove()
            self.env.models.db.engine.dispose()
