"""Oracle self-tests against published vectors / second implementations."""


def run() -> list[str]:
    bad: list[str] = []
    from dlv.oracles import rfc7233
    bad += rfc7233.selftest()
    for name in ('crc', 'aes', 'playready_ref', 'scte35_ref'):
        try:
            mod = __import__(f'dlv.oracles.{name}', fromlist=['selftest'])
        except ModuleNotFoundError:
            continue
        bad += mod.selftest()
    return bad
