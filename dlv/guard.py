"""Termination guards.

* wall watchdog: signal.setitimer raising a BaseException in the main thread (the harness drives
  requests synchronously in the main thread, so a spinning Python loop is interrupted and the
  stack at that moment is the witness).  Its firing only marks a *suspect*.
* line budget: sys.monitoring LINE events counted while the suspect is re-run alone; exceeding the
  budget (a large multiple of what legitimate requests of that kind need) is the deterministic
  "does not terminate" verdict.
"""
from __future__ import annotations

import signal
import sys
import traceback

TOOL = 4


class WallTimeout(BaseException):
    pass


class LineBudgetExceeded(BaseException):
    pass


def run_with_wall(fn, seconds: float):
    """-> ('ok', value) | ('timeout', stack_text)"""
    stack = {}

    def handler(signum, frame):
        stack['text'] = ''.join(traceback.format_stack(frame)[-12:])
        raise WallTimeout()
    old = signal.signal(signal.SIGALRM, handler)
    signal.setitimer(signal.ITIMER_REAL, seconds)
    try:
        return 'ok', fn()
    except WallTimeout:
        return 'timeout', stack.get('text', '')
    finally:
        signal.setitimer(signal.ITIMER_REAL, 0)
        signal.signal(signal.SIGALRM, old)


def run_with_line_budget(fn, budget: int, only_prefix: str | None = None):
    """-> ('ok', value, lines) | ('exceeded', stack_text, lines)"""
    mon = sys.monitoring
    state = {'n': 0, 'stack': ''}
    try:
        mon.use_tool_id(TOOL, 'dlv-budget')
    except ValueError:
        pass

    def on_line(code, line):
        state['n'] += 1
        if state['n'] > budget and not state.get('done'):
            state['done'] = True
            mon.set_events(TOOL, 0)          # no further events while the exception unwinds
            state['stack'] = ''.join(traceback.format_stack(sys._getframe(1))[-10:])
            raise LineBudgetExceeded()
    def on_jump(code, src, dst):
        on_line(code, 0)
    mon.register_callback(TOOL, mon.events.LINE, on_line)
    mon.register_callback(TOOL, mon.events.JUMP, on_jump)
    mon.register_callback(TOOL, mon.events.BRANCH, on_jump)
    mon.set_events(TOOL, mon.events.LINE | mon.events.JUMP | mon.events.BRANCH)
    try:
        return 'ok', fn(), state['n']
    except LineBudgetExceeded:
        return 'exceeded', state['stack'], state['n']
    finally:
        mon.set_events(TOOL, 0)
        mon.register_callback(TOOL, mon.events.LINE, None)
        mon.register_callback(TOOL, mon.events.JUMP, None)
        mon.register_callback(TOOL, mon.events.BRANCH, None)
        try:
            mon.free_tool_id(TOOL)
        except ValueError:
            pass


def count_lines(fn) -> int:
    r = run_with_line_budget(fn, 10**12)
    return r[2]
