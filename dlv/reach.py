"""Reach counters: sys.monitoring local PY_START events on the code objects of the
anchored mechanism functions.  Zero for a required counter => the run is inconclusive."""
from __future__ import annotations

import importlib
import sys

TOOL = 3  # sys.monitoring tool id (0-5); 3 is unused by debuggers/profilers/coverage


class Reach:
    def __init__(self, targets: list[tuple[str, str]]) -> None:
        self.counts: dict[str, int] = {}
        self.missing: list[str] = []
        self.codes: dict[object, str] = {}
        mon = sys.monitoring
        try:
            mon.use_tool_id(TOOL, 'dlv-reach')
        except ValueError:
            pass
        for modname, qual in targets:
            short = qual.split('.')[-1]
            try:
                obj = importlib.import_module(modname)
                for part in qual.split('.'):
                    obj = getattr(obj, part)
                obj = getattr(obj, '__func__', obj)
                obj = getattr(obj, '__wrapped__', obj)
                code = obj.__code__
            except (ImportError, AttributeError):
                self.missing.append(f'{modname}.{qual}')
                continue
            self.codes[code] = short
            self.counts[short] = 0
            mon.set_local_events(TOOL, code, mon.events.PY_START)
        mon.register_callback(TOOL, mon.events.PY_START, self._on_start)

    def _on_start(self, code, offset):
        name = self.codes.get(code)
        if name is not None:
            self.counts[name] += 1

    def report(self, res) -> None:
        for name, n in self.counts.items():
            res.count('reach.' + name, n)
        for m in self.missing:
            res.notes.append(f'anchored function not found: {m}')
            res.inconclusive.append(f'anchored function {m} does not exist any more')
        mon = sys.monitoring
        for code in self.codes:
            mon.set_local_events(TOOL, code, 0)
        mon.register_callback(TOOL, mon.events.PY_START, None)
        try:
            mon.free_tool_id(TOOL)
        except ValueError:
            pass
