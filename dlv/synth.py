"""Synthetic media with irregular segment durations (C01/C02/C03/C06 quantifier).

The fixture video tracks all have timescale 240 and ten equal 4 s segments, so durations that
are not a whole number of microseconds, per-segment jitter and a reference track whose loop is
not a multiple of its segment grid are never seen.  `retime()` derives such a track from a
fixture file by patching fixed-width fields in place (no box changes its size):

    mdhd.timescale/duration, trex.default_sample_duration, per fragment
    tfhd.default_sample_duration and tfdt.base_media_decode_time, and every sidx
    (timescale, earliest_presentation_time, subsegment_duration).

The sample payload, sizes and offsets are untouched, so payload identity checks still apply.
The real indexer (MediaFile.parse_media_file) indexes the result like any upload.
"""
from __future__ import annotations

import struct
from pathlib import Path

from dlv.oracles import isobmff as ib


def retime(buf: bytes, timescale: int, sample_durations: list[int]) -> bytes:
    """sample_durations[k] = the default sample duration used by fragment k (cycled)"""
    out = bytearray(buf)
    root = ib.parse_file(buf)
    moov = [c for c in root.children if c.type == b'moov'][0]
    mdhd = moov.find(b'trak', b'mdia', b'mdhd')
    v, _, p = ib.fullbox(buf, mdhd)
    total = 0
    decode = 0
    k = 0
    pending = None
    for c in root.children:
        if c.type == b'sidx':
            sv, _, sp = ib.fullbox(buf, c)
            # one reference per sidx in the fixtures: patched after the fragment's duration is known
            pending = (sv, sp)
        elif c.type == b'moof':
            tfhd = c.find(b'traf', b'tfhd')
            tfdt = c.find(b'traf', b'tfdt')
            trun = c.find(b'traf', b'trun')
            _, flags, tp = ib.fullbox(buf, tfhd)
            if not flags & 0x8 or flags & 0x1:
                raise ValueError('retime() needs tfhd.default_sample_duration and no explicit base offset')
            off = tp + 4 + (4 if flags & 0x2 else 0)
            dsd = sample_durations[k % len(sample_durations)]
            struct.pack_into('>I', out, off, dsd)
            n = ib.read_trun(buf, trun)['sample_count']
            if ib.read_trun(buf, trun)['flags'] & 0x100:
                raise ValueError('retime() needs runs without per-sample durations')
            dv, _, dp = ib.fullbox(buf, tfdt)
            struct.pack_into('>Q' if dv else '>I', out, dp, decode)
            seg = n * dsd
            if pending is not None:
                sv, sp = pending
                struct.pack_into('>I', out, sp + 4, timescale)
                if sv:
                    struct.pack_into('>Q', out, sp + 8, decode)
                    ref = sp + 24 + 4
                else:
                    struct.pack_into('>I', out, sp + 8, decode)
                    ref = sp + 16 + 4
                struct.pack_into('>I', out, ref + 4, seg)
                pending = None
            decode += seg
            total += seg
            k += 1
    if v:
        struct.pack_into('>I', out, p + 16, timescale)
        struct.pack_into('>Q', out, p + 20, total)
    else:
        struct.pack_into('>I', out, p + 8, timescale)
        struct.pack_into('>I', out, p + 12, total)
    trex = moov.find(b'mvex', b'trex')
    _, _, xp = ib.fullbox(buf, trex)
    struct.pack_into('>I', out, xp + 8, sample_durations[0])
    # mvhd/tkhd/mehd durations are in the movie timescale (mvhd.timescale): rescale them to the new total
    mvhd = moov.find(b'mvhd')
    mv, _, mp = ib.fullbox(buf, mvhd)
    movie_ts = struct.unpack_from('>I', buf, mp + (16 if mv else 8))[0]
    movie_dur = total * movie_ts // timescale
    struct.pack_into('>Q' if mv else '>I', out, mp + (20 if mv else 12), movie_dur)
    mehd = moov.find(b'mvex', b'mehd')
    if mehd is not None:
        ev, _, ep = ib.fullbox(buf, mehd)
        struct.pack_into('>Q' if ev else '>I', out, ep, movie_dur)
    tkhd = moov.find(b'trak', b'tkhd')
    kv, _, kp = ib.fullbox(buf, tkhd)
    struct.pack_into('>Q' if kv else '>I', out, kp + (24 if kv else 16), movie_dur)
    return bytes(out)


def add_synthetic_streams(env, ctx, res) -> None:
    from dlv.appenv import FIXTURES
    src = (FIXTURES / 'bbb' / 'bbb_v7.mp4').read_bytes()
    # 90 kHz, 96 samples per fragment, per-fragment jitter: the total (3 600 672 ticks = 40.007466.. s)
    # is not a whole number of microseconds and no two neighbouring segments have the same duration
    durs = [3750, 3751, 3749, 3752, 3750, 3753, 3748, 3751, 3750, 3753]
    video = retime(src, 90000, durs)
    sf = ib.index_file(video)
    assert sf.timescale == 90000 and len({s.duration for s in sf.segments}) > 3, 'retime() did not take effect'
    files = {
        'syn_v1': video,
        'syn_a1': (FIXTURES / 'bbb' / 'bbb_a1.mp4').read_bytes(),
        'syn_t1': (FIXTURES / 'bbb' / 'bbb_t1.mp4').read_bytes(),
    }
    env.add_stream('syn', title='Synthetic irregular 90 kHz video', files=files)
    res.count('synthetic.streams')
    # second synthetic stream: structural variants of the same media that no fixture has -
    #   video: irregular durations AND no tfdt boxes AND fragments numbered from 5
    #   audio: explicit tfhd.base_data_offset (absolute position in the stored file)
    durs2 = [3300, 3747, 3755, 3750, 3752, 3749, 3750, 3751, 3748, 3753]
    video2 = restructure(retime(src, 90000, durs2), first_sequence=5, drop_tfdt=True)
    audio2 = restructure((FIXTURES / 'bbb' / 'bbb_a1.mp4').read_bytes(), explicit_base=True)
    for data in (video2, audio2):
        sf2 = ib.index_file(data)       # the independent walker accepts the re-laid-out file
        assert len(sf2.segments) == 10
    env.add_stream('sy2', title='Synthetic: no tfdt, numbered from 5, explicit base offsets',
                   files={'sy2_v1': video2, 'sy2_a1': audio2})
    # two video Representations of the same timing whose fragments are numbered from 6 and from 1: the files of
    # one AdaptationSet need not start at the same sequence number. Only a manifest with one SegmentTemplate
    # per Representation (manifest_ef.mpd) can describe that: the checks ask this stream for that template only
    v6 = restructure((FIXTURES / 'bbb' / 'bbb_v6.mp4').read_bytes(), first_sequence=6)
    env.add_stream('sy9', title='Synthetic: Representations numbered from 6 and from 1',
                   files={'sy9_v1': v6, 'sy9_v2': src, 'sy9_a1': (FIXTURES / 'bbb' / 'bbb_a1.mp4').read_bytes()})
    res.count('synthetic.streams')
    res.count('synthetic.streams')


def add_structural_streams(env, ctx, res) -> None:
    """Third synthetic stream: fragment layouts no fixture has, all legal and all read by the indexer.
      audio: tfhd with neither base-data-offset-present nor default-base-is-moof
      encrypted video and audio: senc boxes that carry the override fields (flags & 1)"""
    from dlv.appenv import FIXTURES
    fx = FIXTURES / 'bbb'
    def override(name: str) -> bytes:
        tenc = ib.index_file((fx / name).read_bytes()).tenc
        return b'\0\0\1' + bytes([tenc['iv_size']]) + tenc['kid']
    files = {
        'sy3_v1': (fx / 'bbb_v7.mp4').read_bytes(),
        'sy3_a1': restructure((fx / 'bbb_a1.mp4').read_bytes(), plain_base=True),
        'sy3_v1_enc': restructure((fx / 'bbb_v7_enc.mp4').read_bytes(),
                                  senc_override=override('bbb_v7_enc.mp4')),
        'sy3_a1_enc': restructure((fx / 'bbb_a1_enc.mp4').read_bytes(), plain_base=True,
                                  senc_override=override('bbb_a1_enc.mp4')),
    }
    for name in ('sy3_a1', 'sy3_a1_enc'):
        # (the fixture ends with an empty styp+sidx pair after the last mdat: not part of any segment)
        files[name] = files[name][:ib.index_file(files[name]).segments[-1].end]
    for name, data in files.items():
        assert len(ib.index_file(data).segments) == 10, name
    spk = env.add_stream('sy3', title='Synthetic: plain tfhd base, senc override fields', files=files)
    # The stored index of the two audio files is the one another indexer (or a populate script with its own
    # JSON) would give: every segment begins at its styp box, "styp sidx moof mdat", where the project's own
    # indexer starts a segment at the moof and lets the next fragment's styp and sidx trail it. The handlers
    # serve whatever range the stored index names; with this one, removing the sidx moves the moof.
    import copy
    with env.app.app_context():
        stream = env.models.Stream.get(pk=spk)
        for mf in stream.media_files:
            if mf.name not in ('sy3_a1', 'sy3_a1_enc'):
                continue
            sf = ib.index_file(files[mf.name])
            rep = copy.deepcopy(dict(mf.rep))
            assert len(rep['segments']) == len(sf.segments) + 1
            rep['segments'][0]['size'] = sf.init_end - rep['segments'][0]['pos']
            for seg, st in zip(rep['segments'][1:], sf.segments):
                assert st.first_box == 'styp', st.first_box
                seg['pos'], seg['size'] = st.start, st.end - st.start
            mf.rep = rep
        env.models.db.session.commit()
        env.models.db.session.remove()
    res.count('synthetic.streams')


def retrack(buf: bytes, new_id: int) -> bytes:
    """The same single-track file with another track id (tkhd, trex, every tfhd, sidx reference_ID)."""
    out = bytearray(buf)
    root = ib.parse_file(buf)
    for b in root.walk():
        if b.type == b'tkhd':
            v, _, p = ib.fullbox(buf, b)
            struct.pack_into('>I', out, p + (16 if v == 1 else 8), new_id)
        elif b.type in (b'trex', b'tfhd', b'sidx'):
            _, _, p = ib.fullbox(buf, b)
            struct.pack_into('>I', out, p, new_id)
    return bytes(out)


def add_multitrack_audio_stream(env, res=None, directory: str = 'mta') -> int:
    """A stream with two AAC audio tracks of two files each whose bitrates interleave
    (track 2: 98k and 200k, track 3: 150k and 260k; the query that lists the audio files of a stream
    orders them by bitrate, not by track). The bitrates are the stored ones (MediaFile.bitrate and the
    stored Representation), as after an upload of differently encoded files; the media is bbb_a1."""
    from dlv.appenv import FIXTURES
    import copy
    fx = FIXTURES / 'bbb'
    a1 = (fx / 'bbb_a1.mp4').read_bytes()
    a3 = retrack(a1, 3)
    assert ib.index_file(a3).track_id == 3
    files = {'mta_v1': (fx / 'bbb_v7.mp4').read_bytes(), 'mta_a1': a1, 'mta_a2': a3, 'mta_a3': a1, 'mta_a4': a3}
    spk = env.add_stream(directory, title='Two audio tracks, interleaved bitrates', files=files)
    rates = {'mta_a1': 98_000, 'mta_a2': 150_000, 'mta_a3': 200_000, 'mta_a4': 260_000}
    with env.app.app_context():
        stream = env.models.Stream.get(pk=spk)
        for mf in stream.media_files:
            if mf.name in rates:
                rep = copy.deepcopy(dict(mf.rep))
                rep['bitrate'] = rates[mf.name]
                mf.rep = rep
                mf.bitrate = rates[mf.name]
                assert mf.track_id == (2 if mf.name in ('mta_a1', 'mta_a3') else 3), (mf.name, mf.track_id)
        env.models.db.session.commit()
        env.models.db.session.remove()
    if res is not None:
        res.count('synthetic.streams')
    return spk


def drop_mehd(buf: bytes) -> bytes:
    """the same file without the (optional) mehd box in moov/mvex"""
    root = ib.parse_file(buf)
    moov = root.find(b'moov')
    mvex = moov.find(b'mvex')
    mehd = mvex.find(b'mehd')
    assert mehd is not None
    out = bytearray(buf)
    _patch_sizes(out, [moov, mvex], -mehd.size)
    del out[mehd.start:mehd.end]
    return bytes(out)


def add_protection_variants_stream(env, res=None, directory: str = 'sy5') -> dict:
    """Encrypted files whose protection-related structure differs from the fixtures:
      sy5_v1_enc  no mehd box in mvex (the box is optional; the fixtures all have one)
      sy5_a1_enc  a version 1 pssh box in the first moof lists a second key id besides the default
                  one (key rotation style): the track has two KIDs
    -> {name: [kid, ...]} as the oracle reads them from the files"""
    from dlv.appenv import FIXTURES
    from dlv.oracles import boxwriter as bw
    fx = FIXTURES / 'bbb'
    a_enc = (fx / 'bbb_a1_enc.mp4').read_bytes()
    kid = ib.index_file(a_enc).tenc['kid']
    kid2 = bytes.fromhex('a2c786d0f9ef4cb3b333cd323a4284a5')
    pssh = bw.full(b'pssh', 1, 0, bytes.fromhex('1077efecc0b24d02ace33c1e52e2fb4b') +
                   struct.pack('>I', 2) + kid + kid2 + struct.pack('>I', 0))
    # an encrypted file whose stored moov already carries pssh boxes of the packager (a PlayReady one with
    # another licence URL and a "common" one): requested protection data is added, stored boxes stay
    a2 = (fx / 'bbb_a2_enc.mp4').read_bytes()
    kid_a2 = ib.index_file(a2).tenc['kid']
    stored = bw.full(b'pssh', 0, 0, bytes.fromhex('9a04f07998404286ab92e65be0885f95') + struct.pack('>I', 10) + b'packager!!') + \
        bw.full(b'pssh', 1, 0, bytes.fromhex('1077efecc0b24d02ace33c1e52e2fb4b') + struct.pack('>I', 1) + kid_a2 + struct.pack('>I', 0))
    root = ib.parse_file(a2)
    moov = root.find(b'moov')
    a2s = bytearray(a2)
    _patch_sizes(a2s, [moov], len(stored))
    a2s[moov.end:moov.end] = stored
    files = {'sy5_v1': (fx / 'bbb_v7.mp4').read_bytes(),
             'sy5_v1_enc': drop_mehd((fx / 'bbb_v7_enc.mp4').read_bytes()),
             'sy5_a1_enc': restructure(a_enc, moof_pssh=pssh),
             'sy5_a2_enc': bytes(a2s),
             'sy5_a3_enc': widen_ivs(a_enc)}          # 16 byte per-sample IVs (the fixtures all use 8)
    for name, data in files.items():
        assert len(ib.index_file(data).segments) == 10, name
    env.add_stream(directory, title='Synthetic: no mehd, two key ids', files=files)
    if res is not None:
        res.count('synthetic.streams')
    return {'sy5_v1_enc': [ib.index_file(files['sy5_v1_enc']).tenc['kid']], 'sy5_a1_enc': [kid, kid2]}


def legal_variants() -> dict[str, bytes]:
    """Well-formed files whose structure differs from every fixture (for upload -> index -> serve)."""
    from dlv.appenv import FIXTURES
    from dlv.oracles import boxwriter as bw
    fx = FIXTURES / 'bbb'
    v, a, a_enc, v_enc = ((fx / n).read_bytes() for n in ('bbb_v7.mp4', 'bbb_a1.mp4', 'bbb_a1_enc.mp4', 'bbb_v7_enc.mp4'))
    tenc = ib.index_file(a_enc).tenc
    kid2 = bytes.fromhex('a2c786d0f9ef4cb3b333cd323a4284a5')
    pssh = bw.full(b'pssh', 1, 0, bytes.fromhex('1077efecc0b24d02ace33c1e52e2fb4b') +
                   struct.pack('>I', 2) + tenc['kid'] + kid2 + struct.pack('>I', 0))
    return {
        'pssh_in_moof': restructure(a_enc, moof_pssh=pssh),
        'no_mehd': drop_mehd(v_enc),
        'plain_base': restructure(a, plain_base=True),
        'senc_override': restructure(a_enc, senc_override=b'\0\0\1' + bytes([tenc['iv_size']]) + tenc['kid']),
        'no_tfdt_from_5': restructure(v, first_sequence=5, drop_tfdt=True),
        'explicit_base': restructure(a, explicit_base=True),
        'track_5': retrack(v, 5),
    }


def shift_decode_times(buf: bytes, seconds: int) -> bytes:
    """every tfdt (and sidx earliest_presentation_time) moved later by `seconds`: a track that does not
    start at decode time zero, as a recording cut out of a longer one"""
    out = bytearray(buf)
    root = ib.parse_file(buf)
    ts = ib.index_file(buf).timescale
    delta = seconds * ts
    for b in root.walk():
        if b.type == b'tfdt':
            v, _, p = ib.fullbox(buf, b)
            fmt = '>Q' if v == 1 else '>I'
            struct.pack_into(fmt, out, p, struct.unpack_from(fmt, buf, p)[0] + delta)
        elif b.type == b'sidx':
            v, _, p = ib.fullbox(buf, b)
            fmt = '>Q' if v == 1 else '>I'
            struct.pack_into(fmt, out, p + 8, struct.unpack_from(fmt, buf, p + 8)[0] + delta)
    return bytes(out)


def add_offset_start_stream(env, res=None, directory: str = 'sy6', seconds: int = 100) -> int:
    """bbb video, audio and text whose decode times all start at 100 s instead of 0"""
    from dlv.appenv import FIXTURES
    fx = FIXTURES / 'bbb'
    files = {f'sy6_{k}': shift_decode_times((fx / f'bbb_{k}.mp4').read_bytes(), seconds) for k in ('v7', 'a1', 't1')}
    for name, data in files.items():
        sf = ib.index_file(data)
        assert sf.segments[0].tfdt == seconds * sf.timescale, name
    spk = env.add_stream(directory, title='Decode times start at 100 s', files=files)
    if res is not None:
        res.count('synthetic.streams')
    return spk


def pad_mdat(buf: bytes, pad: int) -> bytes:
    """every fragment's mdat grows by `pad` zero bytes, which are added to the size of its last sample
    (the payload is opaque): segments larger than the windowed reader's whole cache (30 x 16 KiB)"""
    root = ib.parse_file(buf)
    out = bytearray()
    pending_sidx = None
    for c in root.children:
        raw = bytearray(buf[c.start:c.end])
        if c.type == b'sidx':
            pending_sidx = (len(out), c)
        elif c.type == b'moof':
            local = ib.parse_file(bytes(raw)).children[0]
            tr = local.find(b'traf', b'trun')
            _, flags, p = ib.fullbox(raw, tr)
            count = struct.unpack_from('>I', raw, p)[0]
            assert flags & 0x200 and count
            q = p + 4 + (4 if flags & 1 else 0) + (4 if flags & 4 else 0)
            entry = 4 * bin(flags & 0xF00).count('1')
            pos = q + (count - 1) * entry + (4 if flags & 0x100 else 0)
            struct.pack_into('>I', raw, pos, struct.unpack_from('>I', raw, pos)[0] + pad)
            if pending_sidx is not None:
                off, sb = pending_sidx
                sv, _, sp = ib.fullbox(buf, sb)
                ref = off + (sp - sb.start) + (28 if sv else 20)
                word = struct.unpack_from('>I', out, ref)[0]
                struct.pack_into('>I', out, ref, (word & 0x80000000) | ((word & 0x7FFFFFFF) + pad))
            pending_sidx = None
        elif c.type == b'mdat':
            struct.pack_into('>I', raw, 0, len(raw) + pad)
            raw += b'\0' * pad
        out += raw
    return bytes(out)


def add_layout_variants_stream(env, res=None, directory: str = 'sy7') -> int:
    """  sy7_a1_enc  encrypted, tfhd with an explicit (file-absolute) base_data_offset
         sy7_a2      a free box between every moof and its mdat"""
    from dlv.appenv import FIXTURES
    fx = FIXTURES / 'bbb'
    a1 = restructure((fx / 'bbb_a1.mp4').read_bytes(), free_before_mdat=12)
    # the last box of the file states size 0 ("to the end of the file"), as a recorder leaves it
    a1 = bytearray(a1[:ib.index_file(a1).segments[-1].end])
    last_mdat = [c for c in ib.parse_file(bytes(a1)).children if c.type == b'mdat'][-1]
    assert last_mdat.end == len(a1)
    struct.pack_into('>I', a1, last_mdat.start, 0)
    files = {'sy7_v1': pad_mdat((fx / 'bbb_v7.mp4').read_bytes(), 492000),      # every segment > 480 KiB
             'sy7_v1_enc': (fx / 'bbb_v7_enc.mp4').read_bytes(),
             'sy7_a1_enc': restructure((fx / 'bbb_a1_enc.mp4').read_bytes(), explicit_base=True),
             'sy7_a1': bytes(a1),
             'sy7_a4': restructure((fx / 'bbb_a2.mp4').read_bytes(), free_before_mdat=12, second_gap=20),   # two boxes in the gap
             'sy7_a3_enc': widen_ivs((fx / 'bbb_a1_enc.mp4').read_bytes())}     # 16 byte per-sample IVs
    for name, data in files.items():
        assert len(ib.index_file(data).segments) == 10, name
    assert min(s_.mdat_payload[1] - s_.mdat_payload[0] for s_ in ib.index_file(files['sy7_v1']).segments) > 30 * 16384
    spk = env.add_stream(directory, title='Synthetic: explicit base (encrypted), free before mdat', files=files)
    if res is not None:
        res.count('synthetic.streams')
    return spk


def truncate_fragments(buf: bytes, n: int) -> bytes:
    """the first n media fragments of a file (cut where the n+1-th segment begins)"""
    sf = ib.index_file(buf)
    return buf[:sf.segments[n].start] if n < len(sf.segments) else buf


def add_short_reference_stream(env, res=None, directory: str = 'cut') -> int:
    """video (the timing reference) of 8 fragments = 32 s next to audio of 10 fragments = 40 s: a track with
    more media than the reference"""
    from dlv.appenv import FIXTURES
    fx = FIXTURES / 'bbb'
    files = {'cut_v7': truncate_fragments((fx / 'bbb_v7.mp4').read_bytes(), 8), 'cut_a1': (fx / 'bbb_a1.mp4').read_bytes()}
    assert len(ib.index_file(files['cut_v7']).segments) == 8
    spk = env.add_stream(directory, title='Video shorter than audio', files=files)
    if res is not None:
        res.count('synthetic.streams')
    return spk


def add_sample_durations(buf: bytes, extra_last: int) -> bytes:
    """Every trun gets per-sample durations (flag 0x100): the tfhd default for all samples but the last of the
    fragment, which lasts `extra_last` ticks longer - the tfhd default stays in place, and the per-sample values
    override it (14496-12 8.8.8). Decode times, sidx and the header durations follow."""
    root = ib.parse_file(buf)
    out = bytearray()
    pending_sidx = None
    decode = None
    total_extra = 0
    for c in root.children:
        raw = bytearray(buf[c.start:c.end])
        if c.type == b'sidx':
            pending_sidx = (len(out), c)
        elif c.type == b'moof':
            local = ib.parse_file(bytes(raw)).children[0]
            traf = local.find(b'traf')
            tf, tr, td = traf.find(b'tfhd'), traf.find(b'trun'), traf.find(b'tfdt')
            tfhd = ib.read_tfhd(raw, tf)
            default = tfhd['default_sample_duration']
            tv, tflags, tp = ib.fullbox(raw, tr)
            assert not tflags & 0x100
            count = struct.unpack_from('>I', raw, tp)[0]
            q = tp + 4 + (4 if tflags & 1 else 0) + (4 if tflags & 4 else 0)
            entry = 4 * bin(tflags & 0xF00).count('1')
            body = bytearray(raw[tp:q])
            for k in range(count):
                body += struct.pack('>I', default + (extra_last if k == count - 1 else 0))
                body += raw[q + k * entry:q + (k + 1) * entry]
            grow = 4 * count
            new_trun = bytearray(raw[tr.start:tp]) + body
            struct.pack_into('>I', new_trun, 0, len(new_trun))
            struct.pack_into('>I', new_trun, 8, (tv << 24) | tflags | 0x100)
            if tflags & 1:
                off = struct.unpack_from('>i', new_trun, 16)[0]
                struct.pack_into('>i', new_trun, 16, off + grow)
            _patch_sizes(raw, [local, traf], grow)
            raw[tr.start:tr.end] = new_trun
            # decode time of this fragment
            dv, _, dp = ib.fullbox(raw, td)
            fmt = '>Q' if dv else '>I'
            if decode is None:
                decode = struct.unpack_from(fmt, raw, dp)[0]
            struct.pack_into(fmt, raw, dp, decode)
            seg = default * count + extra_last
            if pending_sidx is not None:
                off, sb = pending_sidx
                sv, _, sp = ib.fullbox(buf, sb)
                base = off + (sp - sb.start)
                struct.pack_into('>Q' if sv else '>I', out, base + 8, decode)
                ref = base + (28 if sv else 20)
                word = struct.unpack_from('>I', out, ref)[0]
                struct.pack_into('>I', out, ref, (word & 0x80000000) | ((word & 0x7FFFFFFF) + grow))
                struct.pack_into('>I', out, ref + 4, seg)
            pending_sidx = None
            decode += seg
            total_extra += extra_last
        out += raw
    # header durations
    res = bytes(out)
    root2 = ib.parse_file(res)
    out2 = bytearray(res)
    moov = root2.find(b'moov')
    mdhd = moov.find(b'trak', b'mdia', b'mdhd')
    v, _, p = ib.fullbox(res, mdhd)
    ts = struct.unpack_from('>I', res, p + (16 if v else 8))[0]
    fmt, pos = ('>Q', p + 20) if v else ('>I', p + 12)
    struct.pack_into(fmt, out2, pos, struct.unpack_from(fmt, res, pos)[0] + total_extra)
    mvhd = moov.find(b'mvhd')
    mv, _, mp = ib.fullbox(res, mvhd)
    movie_ts = struct.unpack_from('>I', res, mp + (16 if mv else 8))[0]
    add = total_extra * movie_ts // ts
    for box, offs in ((mvhd, (20, 12)), (moov.find(b'trak', b'tkhd'), (24, 16)), (moov.find(b'mvex', b'mehd'), (0, 0))):
        if box is None:
            continue
        bv, _, bp = ib.fullbox(res, box)
        fmt, pos = ('>Q', bp + offs[0]) if bv else ('>I', bp + offs[1])
        struct.pack_into(fmt, out2, pos, struct.unpack_from(fmt, res, pos)[0] + add)
    return bytes(out2)


def add_long_first_fragment_stream(env, res=None, directory: str = 'sy8') -> int:
    """video whose first fragment lasts 1.68 x the others (an encoder that starts with a long GOP): the later
    segments start more than half a nominal segment duration after their nominal start"""
    from dlv.appenv import FIXTURES
    fx = FIXTURES / 'bbb'
    video = retime((fx / 'bbb_v7.mp4').read_bytes(), 90000, [6300] + [3750] * 9)
    # audio whose truns carry per-sample durations next to the tfhd default (the last sample of every fragment
    # lasts 512 ticks longer)
    audio = add_sample_durations((fx / 'bbb_a1.mp4').read_bytes(), 512)
    sfa = ib.index_file(audio)
    assert len(sfa.segments) == 10 and sfa.segments[0].duration == 176128 + 512, sfa.segments[0].duration
    files = {'sy8_v1': video, 'sy8_a1': audio}
    spk = env.add_stream(directory, title='Synthetic: long first fragment, per-sample durations', files=files)
    if res is not None:
        res.count('synthetic.streams')
    return spk


def add_retracked_video_stream(env, res=None, directory: str = 'vt5') -> int:
    """bbb with its video on track 5 (track ids only have to be unique within a stream): the video
    AdaptationSet of a manifest is numbered 1 whatever the track id is."""
    from dlv.appenv import FIXTURES
    fx = FIXTURES / 'bbb'
    files = {'vt5_v1': retrack((fx / 'bbb_v7.mp4').read_bytes(), 5), 'vt5_a1': (fx / 'bbb_a1.mp4').read_bytes(),
             'vt5_t1': (fx / 'bbb_t1.mp4').read_bytes()}
    assert ib.index_file(files['vt5_v1']).track_id == 5
    spk = env.add_stream(directory, title='Video on track 5', files=files)
    if res is not None:
        res.count('synthetic.streams')
    return spk


def _patch_sizes(m: bytearray, chain: list, delta: int) -> None:
    for b in chain:
        struct.pack_into('>I', m, b.start, struct.unpack_from('>I', m, b.start)[0] + delta)


def restructure(buf: bytes, first_sequence: int | None = None, drop_tfdt: bool = False,
                explicit_base: bool = False, plain_base: bool = False,
                senc_override: bytes | None = None, moof_pssh: bytes | None = None,
                free_before_mdat: int | None = None, second_gap: int | None = None) -> bytes:
    """Re-lays a fragmented file out fragment by fragment (same payloads, same durations):
      first_sequence  mfhd sequence numbers count from this value instead of 1
      drop_tfdt       the tfdt box of every fragment is removed (decode times must be derived)
      explicit_base   tfhd carries an absolute base_data_offset (position of the moof box in the
                      stored file) instead of default-base-is-moof
      plain_base      tfhd carries neither base-data-offset-present nor default-base-is-moof (14496-12
                      8.8.7: the base of the first track fragment is then the start of the moof box too)
      senc_override   20 bytes AlgorithmID(3) IV_size(1) KID(16): every senc box gets flags|=1 and these
                      override fields in front of its sample count (first edition of 23001-7; the parser
                      under test reads and writes them)
      moof_pssh       this (pssh) box becomes the last child of the first moof box
      free_before_mdat  a free box with that many payload bytes separates every moof from its mdat
      second_gap      (with free_before_mdat) a second free box with that many payload bytes follows the first
    sidx referenced sizes, trun data offsets and saio offsets are kept consistent with the new layout."""
    root = ib.parse_file(buf)
    out = bytearray()
    pending_sidx = None        # (offset of the sidx in out, parsed box)
    bases = []                 # (offset in out of the tfhd base field, moof position in out)
    seq = first_sequence
    for c in root.children:
        raw = bytearray(buf[c.start:c.end])
        if c.type == b'sidx':
            pending_sidx = (len(out), c)
            out += raw
            continue
        if c.type != b'moof':
            out += raw
            continue
        m = raw
        delta = 0
        local = ib.parse_file(bytes(m)).children[0]
        if seq is not None:
            mf = local.find(b'mfhd')
            struct.pack_into('>I', m, mf.body + 4, seq)
            seq += 1
        if drop_tfdt:
            local = ib.parse_file(bytes(m)).children[0]
            traf = local.find(b'traf')
            td = traf.find(b'tfdt')
            if td is not None:
                _patch_sizes(m, [local, traf], -td.size)
                del m[td.start:td.end]
                delta -= td.size
        if explicit_base:
            local = ib.parse_file(bytes(m)).children[0]
            traf = local.find(b'traf')
            tf = traf.find(b'tfhd')
            _, flags, p = ib.fullbox(m, tf)
            if not flags & 1:
                struct.pack_into('>I', m, tf.body, ((flags | 0x1) & ~0x20000))
                _patch_sizes(m, [local, traf, tf], 8)
                m[p + 4:p + 4] = b'\0' * 8
                delta += 8
                bases.append((len(out) + p + 4, len(out)))
        if plain_base:
            local = ib.parse_file(bytes(m)).children[0]
            tf = local.find(b'traf', b'tfhd')
            _, flags, p = ib.fullbox(m, tf)
            assert not flags & 1
            struct.pack_into('>I', m, tf.body, flags & ~0x20000)
        if senc_override is not None:
            assert len(senc_override) == 20
            local = ib.parse_file(bytes(m)).children[0]
            traf = local.find(b'traf')
            se = traf.find(b'senc')
            if se is not None:
                _, flags, p = ib.fullbox(m, se)
                struct.pack_into('>I', m, se.body, flags | 1)
                _patch_sizes(m, [local, traf, se], 20)
                m[p:p] = senc_override
                delta += 20
        if moof_pssh is not None:
            local = ib.parse_file(bytes(m)).children[0]
            _patch_sizes(m, [local], len(moof_pssh))
            m += moof_pssh
            delta += len(moof_pssh)
            moof_pssh = None
        if free_before_mdat is not None:
            delta += 8 + free_before_mdat
            if second_gap is not None:
                delta += 8 + second_gap
        if delta or senc_override is not None:
            local = ib.parse_file(bytes(m)).children[0]
            so, se = local.find(b'traf', b'saio'), local.find(b'traf', b'senc')
            if so is not None and se is not None:
                sv, sflags, sp = ib.fullbox(m, so)
                if sflags & 1:
                    sp += 8
                _, eflags, ep = ib.fullbox(m, se)
                first_entry = ep + (20 if eflags & 1 else 0) + 4
                assert struct.unpack_from('>I', m, sp)[0] == 1
                struct.pack_into('>Q' if sv else '>I', m, sp + 4, first_entry)
        if delta:
            local = ib.parse_file(bytes(m)).children[0]
            tr = local.find(b'traf', b'trun')
            _, tflags, tp = ib.fullbox(m, tr)
            if tflags & 1:
                old = struct.unpack_from('>i', m, tp + 4)[0]
                struct.pack_into('>i', m, tp + 4, old + delta)
            if pending_sidx is not None:
                off, sb = pending_sidx
                sv, _, sp = ib.fullbox(buf, sb)
                ref = off + (sp - sb.start) + (28 if sv else 20)
                word = struct.unpack_from('>I', out, ref)[0]
                struct.pack_into('>I', out, ref, (word & 0x80000000) | ((word & 0x7FFFFFFF) + delta))
        pending_sidx = None
        out += m
        if free_before_mdat is not None:
            out += struct.pack('>I', 8 + free_before_mdat) + b'free' + b'\0' * free_before_mdat
            if second_gap is not None:
                out += struct.pack('>I', 8 + second_gap) + b'free' + b'\0' * second_gap
    for field_off, moof_pos in bases:
        struct.pack_into('>Q', out, field_off, moof_pos)
    return bytes(out)


def widen_ivs(buf: bytes) -> bytes:
    """The same encrypted file with 16 byte per-sample IVs instead of 8 byte ones: tenc.default_IV_size, every senc
    entry (the 8 IV bytes followed by 8 zero bytes - the counter block a decryptor uses is unchanged) and the saiz
    sample info sizes; saio/trun offsets and all box sizes follow.  Written with byte edits on the layout the
    independent parser reports, not with the library under test."""
    root = ib.parse_file(buf)
    edits: list[tuple[int, bytes, int]] = []   # (position, bytes inserted, bytes removed)
    grow: list[tuple[object, int]] = []        # (box, delta) size field updates
    out = bytearray(buf)

    def chain_to(box, parents):
        return parents + [box]

    def walk(box, parents):
        for child in getattr(box, 'children', []) or []:
            yield child, parents + [box]
            yield from walk(child, parents + [box])
    moov = root.find(b'moov')
    tenc = [(b, p) for b, p in walk(moov, []) if b.type == b'tenc']
    assert len(tenc) == 1
    tb = tenc[0][0]
    # tenc: fullbox header(12) reserved(1) reserved/pattern(1) isProtected(1) iv_size(1) kid(16)
    assert out[tb.start + 15] == 8, out[tb.start + 15]
    out[tb.start + 15] = 16
    inserts: list[tuple[int, bytes]] = []
    size_delta: dict[int, int] = {}
    moofs = [b for b in root.children if b.type == b'moof']
    for moof in moofs:
        traf = moof.find(b'traf')
        senc, saiz, saio, trun = (traf.find(t) for t in (b'senc', b'saiz', b'saio', b'trun'))
        flags = int.from_bytes(buf[senc.start + 9:senc.start + 12], 'big')
        count = struct.unpack('>I', buf[senc.start + 12:senc.start + 16])[0]
        pos = senc.start + 16
        added = 0
        for _ in range(count):
            inserts.append((pos + 8, bytes(8)))
            added += 8
            pos += 8
            if flags & 2:
                n = struct.unpack('>H', buf[pos:pos + 2])[0]
                pos += 2 + 6 * n
        assert pos == senc.end, (pos, senc.end)
        for b in (senc, traf, moof):
            size_delta[b.start] = size_delta.get(b.start, 0) + added
        # saiz: header(12) [aux type 8 if flags&1] default_size(1) count(4) sizes[]
        sflags = int.from_bytes(buf[saiz.start + 9:saiz.start + 12], 'big')
        p = saiz.start + 12 + (8 if sflags & 1 else 0)
        if out[p]:
            out[p] += 8
        else:
            n = struct.unpack('>I', buf[p + 1:p + 5])[0]
            for i in range(n):
                out[p + 5 + i] += 8
        # trun.data_offset (relative to the start of the moof) moves with the moof's growth when senc precedes mdat
        tflags = int.from_bytes(buf[trun.start + 9:trun.start + 12], 'big')
        assert tflags & 1
        off = struct.unpack('>i', buf[trun.start + 16:trun.start + 20])[0]
        out[trun.start + 16:trun.start + 20] = struct.pack('>i', off + added)
        # saio offsets (relative to the moof when default-base-is-moof) only move when the senc data lies after
        # boxes that grew; the first IV stays where it was relative to the moof start
    for start, delta in size_delta.items():
        size = struct.unpack('>I', buf[start:start + 4])[0]
        out[start:start + 4] = struct.pack('>I', size + delta)
    for pos, data in sorted(inserts, reverse=True):
        out[pos:pos] = data
    # stored indexes (sidx before the fragments, mfra at the end) would now be stale: drop them, both are optional
    res = bytes(out)
    root2 = ib.parse_file(res)
    drop = [b for b in root2.children if b.type in (b'sidx', b'mfra')]
    o2 = bytearray(res)
    for b in sorted(drop, key=lambda b: -b.start):
        del o2[b.start:b.end]
    return bytes(o2)
