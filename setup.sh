#!/bin/bash
# Offline setup: third-party helper packages next to the repository's interpreter
# (git-ignored .deps), then oracle/shim self-tests.
cd "$(dirname "$0")" || exit 2
export PIP_NO_INDEX=1 PYTHONDONTWRITEBYTECODE=1
if [ ! -d .deps/icontract ]; then
  /venv/bin/pip install --quiet --no-index --find-links /opt/veriftools/wheels \
      --target .deps icontract jsonschema || exit 1
fi
/venv/bin/python -m dlv.selftest || exit 1
echo "setup ok"
